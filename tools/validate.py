#!/usr/bin/env python3-vt
import json, sys, glob, jsonschema
jsonschema.validate(json.load(open('/verif/MANIFEST.json')), json.load(open('/root/.vp/MANIFEST.schema.json')))
print('manifest ok')
s = json.load(open('/root/.vp/EVIDENCE.schema.json'))
for f in sorted(glob.glob('/verif/evidence/C*.json')):
    jsonschema.validate(json.load(open(f)), s)
    print('evidence ok', f)
