#!/usr/bin/env python3
"""tools/try_mutant.py <patch.diff> [--tier quick] [--props C01,C05,...]

Apply a patch to /repo, run the named checks (default: all, quick), print one
line per check, and ALWAYS restore /repo afterwards. Evidence and replays of
these runs go to /verif/.build/mutant/ so the committed evidence is untouched.
"""
import argparse, os, subprocess, sys, time, json
V = os.path.dirname(os.path.dirname(os.path.abspath(__file__)))
ap = argparse.ArgumentParser()
ap.add_argument("patch")
ap.add_argument("--tier", default="quick")
ap.add_argument("--props", default="")
ap.add_argument("--seed", default="1")
ap.add_argument("--native-only", action="store_true")
a = ap.parse_args()
props = a.props.split(",") if a.props else ["C%02d" % i for i in range(1, 20)]
st = subprocess.run(["git", "-C", "/repo", "status", "--porcelain", "--untracked-files=no"], capture_output=True, text=True).stdout.strip()
if st:
    print("refusing: /repo has local modifications:\n" + st); sys.exit(2)
r = subprocess.run(["git", "-C", "/repo", "apply", os.path.abspath(a.patch)], capture_output=True, text=True)
if r.returncode != 0:
    print("patch does not apply:", r.stderr); sys.exit(2)
env = dict(os.environ)
tag = os.path.basename(os.path.dirname(os.path.abspath(a.patch))) or "m"
env["VERIF_EVIDENCE_DIR"] = os.path.join(V, ".build", "mutant", tag, "evidence")
env["VERIF_REPLAY_DIR"] = os.path.join(V, ".build", "mutant", tag, "replays")
env["VERIF_SEED"] = a.seed
if a.native_only:
    env["VERIF_ONLY_KINDS"] = "native"
res = {}
try:
    for p in props:
        t0 = time.time()
        q = subprocess.run([os.path.join(V, "check"), p, "--tier", a.tier], capture_output=True, text=True, env=env, cwd=V)
        viol = [l for l in q.stdout.splitlines() if l.startswith("VIOLATION")]
        inc = [l for l in q.stdout.splitlines() if l.startswith("INCONCLUSIVE")]
        detail = [l for l in q.stdout.splitlines() if l.startswith("  #")]
        res[p] = {"rc": q.returncode, "violations": len(viol), "inconclusive": len(inc), "first": (detail[0].strip() if detail else ""), "wall": round(time.time() - t0, 1)}
        print("%s rc=%d violations=%d inconclusive=%d %5.1fs %s" % (p, q.returncode, len(viol), len(inc), time.time() - t0, (detail[0].strip()[:200] if detail else (inc[0][:200] if inc else ""))))
        sys.stdout.flush()
finally:
    subprocess.run(["git", "-C", "/repo", "checkout", "--", "."])
    print("restored /repo:", subprocess.run(["git", "-C", "/repo", "status", "--porcelain", "--untracked-files=no"], capture_output=True, text=True).stdout.strip() or "clean")
json.dump(res, open(os.path.join(V, ".build", "mutant", tag, "result.json"), "w"), indent=1)
