#!/usr/bin/env python3
"""Fold .build/mutant/<id>/result.json into seeded/<id>/meta.json (detected_by)."""
import json, os, glob, sys
V = os.path.dirname(os.path.dirname(os.path.abspath(__file__)))
for d in sorted(glob.glob(os.path.join(V, "seeded", "*"))):
    name = os.path.basename(d)
    rp = os.path.join(V, ".build", "mutant", name, "result.json")
    mp = os.path.join(d, "meta.json")
    if not (os.path.exists(rp) and os.path.exists(mp)):
        continue
    res = json.load(open(rp)); meta = json.load(open(mp))
    det = meta.get("detected_by", {})
    for p, r in res.items():
        if r["violations"]:
            det[p] = r["first"][:240]
        elif p not in det:
            pass
    meta["detected_by"] = dict(sorted(det.items()))
    meta["checks_run"] = sorted(set(meta.get("checks_run", [])) | set(res.keys()))
    meta["owning_property_check_fires"] = meta["breaks_property"] in det
    json.dump(meta, open(mp, "w"), indent=1)
    print(name, "owning fires:", meta["owning_property_check_fires"], "also:", [k for k in det if k != meta["breaks_property"]])
