#!/usr/bin/env python3
"""Rewrite the seeded-change table in DESIGN.md from seeded/*/meta.json."""
import json, glob, os, re
V = os.path.dirname(os.path.dirname(os.path.abspath(__file__)))
rows = ["| id | breaks | what it is (one line) | owning check fires | also fires |", "|---|---|---|---|---|"]
for d in sorted(glob.glob(os.path.join(V, "seeded", "*"))):
    m = json.load(open(os.path.join(d, "meta.json")))
    what = m.get("summary") or ""
    det = m.get("detected_by", {})
    own = m["breaks_property"]
    how = det.get(own, "")
    stage = re.search(r"stage=(\S+)", how)
    rows.append("| %s | %s | %s | %s | %s |" % (m["id"], own, what, ("yes (%s)" % (stage.group(1) if stage else "see meta.json")) if m.get("owning_property_check_fires", own in det) else "NO (see meta.json)", ", ".join(k for k in det if k != own) or "-"))
table = "\n".join(rows)
p = os.path.join(V, "DESIGN.md")
s = open(p).read()
if "SEEDED_TABLE" in s:
    s = s.replace("SEEDED_TABLE", "<!-- seeded-table-begin -->\n" + table + "\n<!-- seeded-table-end -->")
else:
    s = re.sub(r"<!-- seeded-table-begin -->.*?<!-- seeded-table-end -->", "<!-- seeded-table-begin -->\n" + table.replace("\\", "\\\\") + "\n<!-- seeded-table-end -->", s, flags=re.S)
open(p, "w").write(s)
print(table)
