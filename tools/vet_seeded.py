#!/usr/bin/env python3
"""tools/vet_seeded.py <Cxx> [<name>]: confirm an agent-written seeded change myself in a scratch
worktree (patch applies; pinned suite passes with it; demo fails with it and passes without it),
then store it under /verif/seeded/<name>/ with meta.json."""
import json, os, shutil, subprocess, sys, glob
pid = sys.argv[1]
name = sys.argv[2] if len(sys.argv) > 2 else pid + "-a"
src = os.environ.get("SRC_DIR") or "/tmp/mut/%s/%s" % (pid, "OUT2" if name.endswith("-b") else "OUT3" if name.endswith("-c") else "OUT")
pid = os.environ.get("PROP") or pid
W = "/tmp/selfmut/wt"
def run(cmd, **kw):
    return subprocess.run(cmd, cwd=W, capture_output=True, text=True, **kw)
run(["git", "checkout", "--", "."]); run(["git", "clean", "-fdq", "tests", "examples"])
patch = os.path.join(src, "patch.diff")
demo = os.path.join(src, "demo.rs")
notes = open(os.path.join(src, "notes.md")).read() if os.path.exists(os.path.join(src, "notes.md")) else ""
r = run(["git", "apply", "--check", patch])
if r.returncode: print("PATCH DOES NOT APPLY", r.stderr); sys.exit(1)
os.makedirs(os.path.join(W, "tests"), exist_ok=True)
shutil.copy(demo, os.path.join(W, "tests", "demo_seeded.rs"))
extra = sys.argv[3:]  # extra cargo args for the demo (e.g. --no-default-features)
def demo_run():
    r = run(["cargo", "test", "--offline", "--test", "demo_seeded"] + extra, timeout=1800)
    return r.returncode, (r.stdout + r.stderr)[-1500:]
rc_clean, out_clean = demo_run()
run(["git", "apply", patch])
rc_mut, out_mut = demo_run()
suite = run(["cargo", "test", "--offline", "--lib"], timeout=1800)
doc = run(["cargo", "test", "--offline", "--doc"], timeout=1800)
suite_ok = suite.returncode == 0 and doc.returncode == 0
tail = [l for l in (suite.stdout + doc.stdout).splitlines() if l.startswith("test result")]
run(["git", "checkout", "--", "."]); os.remove(os.path.join(W, "tests", "demo_seeded.rs"))
print("demo on clean tree: rc=%d   demo with change: rc=%d   suite with change: %s %s" % (rc_clean, rc_mut, "PASS" if suite_ok else "FAIL", tail))
ok = rc_clean == 0 and rc_mut != 0 and suite_ok
if not ok:
    print("NOT CONFIRMED"); print(out_clean[-600:]); print(out_mut[-600:]); sys.exit(1)
dst = "/verif/seeded/%s" % name
os.makedirs(dst, exist_ok=True)
shutil.copy(patch, os.path.join(dst, "patch.diff")); shutil.copy(demo, os.path.join(dst, "demo.rs"))
open(os.path.join(dst, "notes.md"), "w").write(notes)
meta = {"id": name, "breaks_property": pid, "origin": "independent sub-agent given only the property text and a scratch worktree",
        "needs_to_manifest": "see notes.md", "confirmed_by_me": {
            "patch_applies_to": subprocess.run(["git", "-C", "/repo", "rev-parse", "HEAD"], capture_output=True, text=True).stdout.strip(),
            "pinned_suite_with_change": "cargo test --offline --lib / --doc: pass (%s)" % "; ".join(tail),
            "demo_with_change": "cargo test --offline --test demo_seeded %s: FAILS (rc=%d)" % (" ".join(extra), rc_mut),
            "demo_without_change": "same command: passes"}, "detected_by": {}}
json.dump(meta, open(os.path.join(dst, "meta.json"), "w"), indent=1)
print("CONFIRMED ->", dst)
