#!/usr/bin/env python3
"""Regenerate MANIFEST.json from lib/plans.py (level texts live here)."""
import json, os, sys
sys.path.insert(0, os.path.join(os.path.dirname(os.path.abspath(__file__)), "..", "lib"))
import plans

TEXT = {
 "C01": ("reference-model monitor (first matching index) on a completely enumerated length x placement x match-position grid for SWAR/SSE2/AVX2 and the real dispatcher in all three outcomes, plus Miri on x86_64/aarch64(NEON)/s390x/i686 samples", "5 C01"),
 "C02": ("reference-model monitor (last matching index), same grid mirrored on the end pointer", "5 C02"),
 "C03": ("reference-model monitor (naive leftmost occurrence) over exhaustive small strings, structured needle families at every routing threshold and prefilter-history haystacks; forced SSE2 / fallback; Miri x86_64 + aarch64", "5 C03"),
 "C04": ("reference-model monitor (naive rightmost occurrence), same workload for the reverse searchers", "5 C04"),
 "C05": ("memory monitors: guard-page arena with SIGSEGV reporter on every safe entry point (incl. mismatched-needle calls), Miri (bounds + alignment, dev and release profiles, four targets), AddressSanitizer on exact heap allocations (thorough)", "5 C05"),
 "C06": ("deque-model monitor over exhaustively enumerated next/next_back histories on short haystacks and boundary-clustered matches on vector-sized ones; size_hint bracket after every operation", "5 C06"),
 "C07": ("count monitor on the length x placement x density grid and on every (i nexts, j next_backs) partially consumed state", "5 C07"),
 "C08": ("greedy-sequence monitor for find_iter/rfind_iter incl. empty needle, self-overlapping needles, clone/into_owned mid-iteration, and prefilter going inert mid-iteration (coverage cell required)", "5 C08"),
 "C09": ("differential monitor: one seeded case list through six native build/dispatch configurations (+ Miri NEON, s390x, i686), every case judged by the oracle and transcripts compared entry by entry", "5 C09"),
 "C10": ("differential monitor over prefilter settings x 11 rankers against the naive oracle; adaptive prefilter driven inert (coverage cells required)", "5 C10"),
 "C11": ("prefilter-soundness monitor (candidate <= first occurrence, candidate genuine) over all/sampled index pairs, portable + SSE2 + AVX2 (+NEON under Miri)", "5 C11"),
 "C12": ("reference-model monitor for Two-Way, Rabin-Karp, Shift-Or and packed-pair find over exhaustive small strings and structured families; constructor domains", "5 C12"),
 "C13": ("resource monitor: deterministic step counter hooked into every search loop, judged against 24*(n+m)+4096 and a growth-rate test on 14 adversarial families up to 256 KiB (thorough 8 MiB)", "5 C13"),
 "C14": ("panic monitor: all workloads under catch_unwind in a debug-assertions + overflow-checks build; exactness sweep of the documented packed-pair panic", "5 C14"),
 "C15": ("concurrency monitor: hundreds of fresh-process first-call races with a failpoint-widened installation window and measured racer counts, shared finders/iterators across threads, values against the sequential oracle; Miri many-seeds data-race detection; ThreadSanitizer (thorough)", "5 C15"),
 "C16": ("history monitor: one finder over long seeded haystack sequences with as_ref/clone/into_owned (needle buffer destroyed) and iterator clone/own at every step, each result against the per-haystack oracle and a fresh finder", "5 C16"),
 "C17": ("resource monitor: counting global allocator armed around each call, with positive controls (into_owned, Shift-Or)", "5 C17"),
 "C18": ("reference-model monitor (==, starts_with, ends_with) on every length/difference position/alignment pair incl. guard pages", "5 C18"),
 "C19": ("reference-model monitor for pair validity over needle shapes x rankers and all 65536 index pairs", "5 C19"),
}
NOTE = {
 "C05": "guard pages see every read that leaves the slice across a page boundary; reads that stay inside the page are seen only by Miri/ASan on the sampled cases; NEON is interpreted by Miri, not run on hardware; on wasm only reads past the end of linear memory trap",
 "C09": "configurations not reachable in this sandbox (x86_64 without SSE2, aarch64_be, aarch64 without NEON) are listed as not_run; wasm32 simd128 is compared when node is present",
 "C13": "the counter counts hooked loop iterations/comparisons, not machine instructions; bound constants derived in DESIGN.md",
 "C15": "native races are only as adversarial as the scheduler + failpoint delays make them (evidence reports how many slots saw >=2 concurrent installers); Miri explores seeds 0..N with preemption",
}
TECH = {
 "C01": "runtime monitoring: reference-model oracle over an enumerated grid on native SWAR/SSE2/AVX2 + forced dispatch, Miri (x86_64, aarch64 NEON, s390x, i686), wasm simd128 under node",
 "C02": "runtime monitoring: reference-model oracle over the mirrored grid on native backends + forced dispatch, Miri (x86_64, aarch64 NEON, s390x, i686), wasm simd128 under node",
 "C03": "runtime monitoring: naive-search oracle over exhaustive/inflated/structured/random pairs, native + forced SSE2/fallback, Miri, wasm simd128",
 "C04": "runtime monitoring: naive reverse-search oracle over the same pair generators, native + forced configurations, Miri, wasm simd128",
 "C05": "sanitizers and fault monitors: PROT_NONE guard-page arena + SIGSEGV reporter, Miri bounds/alignment (dev and release), AddressSanitizer (thorough), wasm end-of-linear-memory trap",
 "C06": "runtime monitoring: deque model checked along exhaustively enumerated next/next_back/clone/count histories",
 "C07": "runtime monitoring: count oracle over length x placement x density grid and partially consumed iterator states",
 "C08": "runtime monitoring: greedy-sequence model over find_iter/rfind_iter transcripts with clone/into_owned and prefilter-inert coverage requirement",
 "C09": "runtime monitoring: differential transcripts across build/dispatch configurations (native x6, wasm simd128, Miri NEON/s390x/i686), each also judged by the oracle",
 "C10": "runtime monitoring: differential oracle check across prefilter settings x rankers",
 "C11": "runtime monitoring: prefilter-soundness oracle (candidate <= first occurrence, candidate genuine) over index pairs",
 "C12": "runtime monitoring: naive-search oracle on Two-Way, Rabin-Karp, Shift-Or, packed-pair find; constructor-domain checks",
 "C13": "runtime monitoring: hooked deterministic step counter judged against a linear bound on adversarial size families",
 "C14": "runtime monitoring: catch_unwind panic monitor in a debug-assertions + overflow-checks build; exactness sweep of the documented panic",
 "C15": "runtime monitoring + race detectors: fresh-process first-call races (spin barrier, failpoint-widened window, post-race re-check) against a sequential oracle, Miri many-seeds data-race detection, ThreadSanitizer (thorough)",
 "C16": "runtime monitoring: per-haystack oracle along finder reuse/clone/as_ref/into_owned histories and iterator conversions",
 "C17": "runtime monitoring: counting global allocator armed around each call, with positive controls",
 "C18": "runtime monitoring: slice-comparison oracle over lengths x difference positions x alignments incl. guard pages",
 "C19": "runtime monitoring: pair-validity oracle over needle shapes x rankers and all 65536 index pairs",
}
checks = []
for pid in sorted(plans.PLANS):
    t, ref = TEXT[pid]
    checks.append({
        "property_id": pid,
        "quick_cmd": "./check %s --tier quick" % pid,
        "thorough_cmd": "./check %s --tier thorough" % pid,
        "evidence_file": "/verif/evidence/%s.json" % pid,
        "replay_cmd_template": "./check %s --replay {path}" % pid,
        "engine": "vh",
        "level_claimed": {"category": "exploration",
                          "text": "held on the executions described in the evidence file (never 'verified'): " + t,
                          "design_ref": "DESIGN.md section " + ref},
        "level_note": NOTE.get(pid, "oracle is a plain loop written without memchr code; inputs are those the generators produce; NEON only under Miri (interpreted intrinsics); wasm simd128 only when node is present (optional engine)"),
        "technique": TECH[pid],
    })
m = {
 "version": 1,
 "setup_cmd": "python3 setup.py",
 "hooks": {
   "guard": "--cfg memchr_verif",
   "enable": "RUSTFLAGS=\"--cfg memchr_verif\" (set per build configuration by lib/vlib.py; the harness depends on memchr as path=/repo)",
   "baseline_off_cmd": "cd /repo && cargo test --workspace --no-fail-fast --offline",
   "source_commits": json.load(open(os.path.join(os.path.dirname(__file__), "hook_commits.json"))),
   "add_only": True,
 },
 "engines": [
   {"name": "vh", "path": "/verif/harness", "serves_properties": sorted(plans.PLANS),
    "kind_free_text": "Rust worker (case language + oracles + guard-page arena + SIGSEGV reporter + counting allocator + thread drivers) run natively in several build configurations, under Miri (x86_64, aarch64, s390x, i686), AddressSanitizer and ThreadSanitizer, and - optional engine - compiled no_std for wasm32+simd128 and run under node/V8 (harness/src/lib.rs, harness/run_wasm.js); orchestrated by ./check (python3 stdlib)"},
 ],
 "checks": checks,
 "not_applicable": [],
 "notes": "All verdicts are three-valued (violated / held on what was observed / inconclusive); INCONCLUSIVE lines never become violations. Known findings: /verif/known_findings.json.",
}
json.dump(m, open(os.path.join(os.path.dirname(__file__), "..", "MANIFEST.json"), "w"), indent=1)
print("wrote MANIFEST.json with", len(checks), "checks")
