"""Tiny helper used once to insert hook lines into /repo (kept for the record)."""
import re, sys
class Ed:
    def __init__(self, path):
        self.path = path
        self.lines = open(path).read().split('\n')
    def find(self, anchor, after_ctx=None, nth=None):
        idx = [i for i, l in enumerate(self.lines) if l.strip() == anchor.strip()]
        return idx
    def ins(self, anchor, new, where='after', count=1, indent=None):
        """insert `new` (str or list) before/after every line equal to anchor (stripped compare)"""
        idx = self.find(anchor)
        if len(idx) != count:
            print("MISMATCH", self.path, repr(anchor), len(idx)); sys.exit(1)
        if isinstance(new, str):
            new = [new]
        for i in reversed(idx):
            base = self.lines[i]
            ind = base[:len(base) - len(base.lstrip())]
            if indent is not None:
                ind = ind + ' ' * indent
            add = [ind + n for n in new]
            if where == 'after':
                self.lines[i + 1:i + 1] = add
            else:
                self.lines[i:i] = add
    def save(self):
        open(self.path, 'w').write('\n'.join(self.lines))
