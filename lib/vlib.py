"""Orchestrator library for the memchr runtime-monitoring checks.

Python 3 standard library only. Responsibilities:
  * build cache: one cargo target dir per build configuration under
    /verif/.build, guarded by a file lock, always rebuilt from /repo's working
    tree (cargo's own fingerprinting notices edits to the path dependency);
  * shard runner with wall-clock watchdogs (a watchdog firing is
    *inconclusive*, never a violation);
  * classification of worker output (oracle failures, hardware faults, panics,
    Miri / ASan / TSan reports);
  * evidence writer, replay files, known-findings matching.
"""
import fcntl
import json
import os
import re
import shutil
import signal
import subprocess
import sys
import time
from concurrent.futures import ThreadPoolExecutor

VERIF = os.path.dirname(os.path.dirname(os.path.abspath(__file__)))
REPO = "/repo"
BUILD = os.path.join(VERIF, ".build")
HARNESS = os.path.join(VERIF, "harness")
EVIDENCE = os.environ.get("VERIF_EVIDENCE_DIR") or os.path.join(VERIF, "evidence")
REPLAYS = os.environ.get("VERIF_REPLAY_DIR") or os.path.join(VERIF, "replays")
NCPU = os.cpu_count() or 8
HOST = "x86_64-unknown-linux-gnu"

BASE_ENV = dict(os.environ)
BASE_ENV["CARGO_NET_OFFLINE"] = "true"
BASE_ENV.setdefault("CARGO_TERM_COLOR", "never")
for k in ("RUSTFLAGS", "MIRIFLAGS", "CARGO_TARGET_DIR", "RUSTDOCFLAGS"):
    BASE_ENV.pop(k, None)


def log(msg):
    sys.stderr.write("[check] %s\n" % msg)
    sys.stderr.flush()


# --------------------------------------------------------------------------
# build configurations

CFG_FLAG = "--cfg memchr_verif"

CONFIGS = {
    # name: (toolchain, rustflags, cargo args, extra env)
    "rel": ("", CFG_FLAG, ["--release"], {}),
    "plain": ("", "", ["--release"], {}),
    "dbg": ("", CFG_FLAG, ["--release"], {
        "CARGO_PROFILE_RELEASE_DEBUG_ASSERTIONS": "true",
        "CARGO_PROFILE_RELEASE_OVERFLOW_CHECKS": "true",
        "CARGO_PROFILE_RELEASE_OPT_LEVEL": "2",
    }),
    "relavx2": ("", CFG_FLAG + " -Ctarget-feature=+avx2", ["--release"], {}),
    "relalloc": ("", CFG_FLAG, ["--release", "--no-default-features", "--features", "alloc"], {}),
    "relcore": ("", CFG_FLAG, ["--release", "--no-default-features"], {}),
    "asan": ("+nightly", CFG_FLAG + " --cfg vh_asan -Zsanitizer=address -Cforce-frame-pointers=yes",
             ["--release", "--target", HOST], {}),
    "tsan": ("+nightly", CFG_FLAG + " -Zsanitizer=thread -Cforce-frame-pointers=yes",
             ["--release", "--target", HOST, "-Zbuild-std"], {}),
}

MIRI_CONFIGS = {
    # name: (target, rustflags, cargo args)
    "miri-x86_64": (HOST, CFG_FLAG, []),
    "miri-x86_64-rel": (HOST, CFG_FLAG, ["--release"]),
    "miri-x86_64-avx2": (HOST, CFG_FLAG + " -Ctarget-feature=+avx2", []),
    "miri-x86_64-avx2-rel": (HOST, CFG_FLAG + " -Ctarget-feature=+avx2", ["--release"]),
    "miri-aarch64": ("aarch64-unknown-linux-gnu", CFG_FLAG, []),
    "miri-aarch64-rel": ("aarch64-unknown-linux-gnu", CFG_FLAG, ["--release"]),
    "miri-s390x": ("s390x-unknown-linux-gnu", CFG_FLAG, []),
    "miri-i686": ("i686-unknown-linux-gnu", CFG_FLAG, []),
}


class BuildError(Exception):
    pass


def _lock(name):
    os.makedirs(BUILD, exist_ok=True)
    f = open(os.path.join(BUILD, name + ".lock"), "w")
    fcntl.flock(f, fcntl.LOCK_EX)
    return f


def ensure_lockfile():
    """harness/Cargo.lock is committed; cargo may rewrite it, which is fine."""
    lock = os.path.join(HARNESS, "Cargo.lock")
    if not os.path.exists(lock):
        shutil.copy(os.path.join(REPO, "Cargo.lock"), lock)


def build(config):
    """Build the native worker for `config`; return the path of the binary."""
    toolchain, rustflags, cargo_args, extra = CONFIGS[config]
    tdir = os.path.join(BUILD, config)
    lk = _lock(config)
    try:
        ensure_lockfile()
        env = dict(BASE_ENV)
        env["RUSTFLAGS"] = rustflags
        env.update(extra)
        cmd = ["cargo"] + ([toolchain] if toolchain else []) + ["build", "--offline", "--bin", "vh"] + cargo_args + [
            "--manifest-path", os.path.join(HARNESS, "Cargo.toml"), "--target-dir", tdir]
        t0 = time.time()
        p = subprocess.run(cmd, env=env, stdout=subprocess.PIPE, stderr=subprocess.STDOUT, text=True)
        if p.returncode != 0:
            raise BuildError("build of config %s failed:\n%s" % (config, p.stdout[-4000:]))
        dt = time.time() - t0
        if dt > 3:
            log("built %s in %.1fs" % (config, dt))
        sub = "release"
        if "--target" in cargo_args:
            sub = os.path.join(cargo_args[cargo_args.index("--target") + 1], "release")
        return os.path.join(tdir, sub, "vh")
    finally:
        lk.close()


def miri_cmd(config, args):
    """Command + env that runs the worker under Miri for `config`."""
    target, rustflags, cargo_args = MIRI_CONFIGS[config]
    tdir = os.path.join(BUILD, config)
    env = dict(BASE_ENV)
    env["RUSTFLAGS"] = rustflags
    flags = "-Zmiri-disable-isolation"
    env["MIRIFLAGS"] = (flags + " " + os.environ.get("VERIF_MIRIFLAGS", "")).strip()
    cmd = ["cargo", "+nightly", "miri", "run", "--offline", "--bin", "vh", "--target", target] + cargo_args + [
        "--manifest-path", os.path.join(HARNESS, "Cargo.toml"), "--target-dir", tdir, "--"] + args
    return cmd, env


def miri_prepare(config):
    """Compile the worker for Miri once (serialised), so that the parallel
    shard processes find everything built. Returns (ok, output)."""
    lk = _lock(config)
    try:
        ensure_lockfile()
        cmd, env = miri_cmd(config, ["noop"])
        p = subprocess.run(cmd, env=env, stdout=subprocess.PIPE, stderr=subprocess.STDOUT, text=True)
        ok = p.returncode == 0 and '"t":"noop"' in p.stdout
        return ok, p.stdout[-4000:]
    finally:
        lk.close()


# --------------------------------------------------------------------------
# wasm32 + simd128 under node (optional engine: node is on this image but not
# in the brief's tool list, so its absence only skips these stages)

def find_node():
    import glob
    n = shutil.which("node")
    if n:
        return n
    cands = sorted(glob.glob(os.path.expanduser("~/.nvm/versions/node/*/bin/node")))
    return cands[-1] if cands else None


def build_wasm():
    """Build core/alloc/compiler_builtins for wasm32-unknown-unknown with
    +simd128 from rust-src into a private sysroot, then the harness as a
    no_std cdylib against it. Returns the path of the .wasm module."""
    lk = _lock("wasm")
    try:
        ensure_lockfile()
        env = dict(BASE_ENV)
        sysroot_host = subprocess.run(["rustc", "+nightly", "--print", "sysroot"], env=env, capture_output=True, text=True).stdout.strip()
        libsrc = os.path.join(sysroot_host, "lib", "rustlib", "src", "rust", "library")
        if not os.path.isdir(os.path.join(libsrc, "core")):
            raise BuildError("rust-src not found under %s" % libsrc)
        crate = os.path.join(BUILD, "wasm-sysroot-crate")
        sysroot = os.path.join(BUILD, "wasm-sysroot")
        libdir = os.path.join(sysroot, "lib", "rustlib", "wasm32-unknown-unknown", "lib")
        stamp = os.path.join(libdir, ".stamp")
        want = sysroot_host + " simd128 v1"
        if not (os.path.exists(stamp) and open(stamp).read() == want):
            os.makedirs(os.path.join(crate, "src"), exist_ok=True)
            with open(os.path.join(crate, "Cargo.toml"), "w") as f:
                f.write('[package]\nname = "wasm-sysroot"\nversion = "0.0.0"\nedition = "2021"\npublish = false\n\n[lib]\npath = "src/lib.rs"\n\n'
                        '[dependencies]\ncore = { path = "%s/core" }\nalloc = { path = "%s/alloc" }\n'
                        'compiler_builtins = { path = "%s/compiler-builtins/compiler-builtins", features = ["compiler-builtins", "mem"] }\n\n'
                        '[profile.release]\nopt-level = 3\npanic = "abort"\n' % (libsrc, libsrc, libsrc))
            with open(os.path.join(crate, "src", "lib.rs"), "w") as f:
                f.write("#![no_std]\n")
            shutil.copy(os.path.join(libsrc, "Cargo.lock"), os.path.join(crate, "Cargo.lock"))
            e2 = dict(env)
            e2["RUSTC_BOOTSTRAP"] = "1"
            e2["RUSTFLAGS"] = "-Zforce-unstable-if-unmarked -Ctarget-feature=+simd128 -Cpanic=abort"
            tdir = os.path.join(BUILD, "wasm-sysroot-target")
            p = subprocess.run(["cargo", "+nightly", "build", "--offline", "--release", "--target", "wasm32-unknown-unknown",
                                "--manifest-path", os.path.join(crate, "Cargo.toml"), "--target-dir", tdir],
                               env=e2, stdout=subprocess.PIPE, stderr=subprocess.STDOUT, text=True)
            if p.returncode != 0:
                raise BuildError("wasm sysroot build failed:\n%s" % p.stdout[-3000:])
            shutil.rmtree(libdir, ignore_errors=True)
            os.makedirs(libdir)
            import glob
            deps = os.path.join(tdir, "wasm32-unknown-unknown", "release", "deps")
            for pat in ("libcore-*.rlib", "liballoc-*.rlib", "libcompiler_builtins-*.rlib"):
                for f in glob.glob(os.path.join(deps, pat)):
                    shutil.copy(f, libdir)
            with open(stamp, "w") as f:
                f.write(want)
        e3 = dict(env)
        e3["RUSTFLAGS"] = CFG_FLAG + " -Ctarget-feature=+simd128 -Cpanic=abort --sysroot " + sysroot
        tdir = os.path.join(BUILD, "wasm")
        p = subprocess.run(["cargo", "+nightly", "build", "--offline", "--release", "--lib", "--target", "wasm32-unknown-unknown",
                            "--no-default-features", "--features", "alloc",
                            "--manifest-path", os.path.join(HARNESS, "Cargo.toml"), "--target-dir", tdir],
                           env=e3, stdout=subprocess.PIPE, stderr=subprocess.STDOUT, text=True)
        if p.returncode != 0:
            raise BuildError("wasm module build failed:\n%s" % p.stdout[-3000:])
        return os.path.join(tdir, "wasm32-unknown-unknown", "release", "vhw.wasm")
    finally:
        lk.close()


# --------------------------------------------------------------------------
# running workers

class ShardResult:
    def __init__(self):
        self.lines = []      # parsed JSON objects
        self.raw_tail = ""   # last part of the raw output (stdout+stderr)
        self.rc = None
        self.timed_out = False
        self.cmd = None
        self.wall = 0.0
        self.stderr = ""


def run_one(cmd, env, timeout):
    r = ShardResult()
    r.cmd = cmd
    t0 = time.time()
    try:
        p = subprocess.Popen(cmd, env=env, stdout=subprocess.PIPE, stderr=subprocess.PIPE,
                             text=True, errors="replace", start_new_session=True)
        try:
            out, err = p.communicate(timeout=timeout)
        except subprocess.TimeoutExpired:
            r.timed_out = True
            try:
                os.killpg(p.pid, signal.SIGKILL)
            except Exception:
                pass
            out, err = p.communicate()
        r.rc = p.returncode
    except Exception as e:  # could not even start
        out, err = "", "spawn failed: %r" % (e,)
        r.rc = 127
    r.wall = time.time() - t0
    r.stderr = err or ""
    for line in (out or "").splitlines():
        line = line.strip()
        if line.startswith("{") and line.endswith("}"):
            try:
                r.lines.append(json.loads(line))
            except Exception:
                pass
    r.raw_tail = ((out or "")[-1500:] + "\n" + (err or "")[-3000:])
    return r


def run_many(jobs, parallel=None):
    """jobs: list of (cmd, env, timeout). Returns ShardResults in order."""
    parallel = parallel or NCPU
    with ThreadPoolExecutor(max_workers=parallel) as ex:
        futs = [ex.submit(run_one, c, e, t) for (c, e, t) in jobs]
        return [f.result() for f in futs]


# --------------------------------------------------------------------------
# classification of tool reports on stderr

MIRI_UB = re.compile(r"error: Undefined Behavior: (.*)")
MIRI_UNSUP = re.compile(r"error: unsupported operation: (.*)")
MIRI_OTHER = re.compile(r"^error(\[E\d+\])?: (.*)", re.M)
ASAN = re.compile(r"ERROR: AddressSanitizer: (\S+)(.*)")
TSAN = re.compile(r"WARNING: ThreadSanitizer: ([^\n(]+)")


def classify_stderr(text):
    """Return list of (kind, message) found in tool output."""
    found = []
    for m in MIRI_UB.finditer(text):
        found.append(("miri-ub", m.group(1).strip()))
    for m in MIRI_UNSUP.finditer(text):
        found.append(("miri-unsupported", m.group(1).strip()))
    for m in ASAN.finditer(text):
        found.append(("asan", (m.group(1) + m.group(2)).strip()))
    for m in TSAN.finditer(text):
        found.append(("tsan", m.group(1).strip()))
    return found


def first_repo_frame(text):
    m = re.search(r"(/repo/src/[^\s:]+:\d+)", text)
    if m:
        return m.group(1)
    m = re.search(r"(src/(arch|memmem|memchr|vector|cow|ext)[^\s:]*\.rs:\d+)", text)
    return m.group(1) if m else ""


# --------------------------------------------------------------------------
# known findings

def load_known():
    p = os.path.join(VERIF, "known_findings.json")
    try:
        with open(p) as f:
            d = json.load(f)
    except Exception:
        d = {}
    return d.get("known", []), d.get("fixed", [])


def match_known(known, prop, rec):
    """A failure record matches a known entry when the property is the same and
    every key of entry['match'] equals (or, for *_re keys, regex-matches) the
    record's field."""
    for e in known:
        if e.get("property") != prop:
            continue
        ok = True
        for k, v in (e.get("match") or {}).items():
            if k.endswith("_re"):
                if not re.search(v, str(rec.get(k[:-3], ""))):
                    ok = False
                    break
            elif str(rec.get(k)) != str(v):
                ok = False
                break
        if ok and e.get("match"):
            return e
    return None


# --------------------------------------------------------------------------
# bitmaps

def merge_bitmaps(paths):
    acc = 0
    n = 0
    for p in paths:
        try:
            with open(p, "rb") as f:
                data = f.read()
            acc |= int.from_bytes(data, "little")
            n += 1
        except Exception:
            pass
        try:
            os.remove(p)
        except Exception:
            pass
    return acc.bit_count() if n else 0
