"""Per-property stage plans: what runs where, at which size.

A stage is one executor (native build configuration, Miri target/profile,
ASan, TSan) running one worker command on `procs` processes. Native stages
split the enumeration `procs` ways; Miri stages run `procs` processes that each
take slice `(seed*procs+i) mod of` of an `of`-way split, so different seeds
visit different slices of the same deterministic sample.
"""
import os
import shutil

N = os.cpu_count() or 8


def tool_present(name):
    return shutil.which(name) is not None


def native(name, cmd, config="rel", procs=N, bitmap=False, timeout=1200, kind="native", **args):
    return {"name": name, "kind": kind, "config": config, "cmd": cmd, "procs": procs,
            "bitmap": bitmap, "timeout": timeout, "args": args}


def miri(name, cmd, config, procs, of, timeout=1500, miriflags=None, **args):
    args.setdefault("tier", "miri")
    d = {"name": name, "kind": "miri", "config": config, "cmd": cmd, "procs": procs, "of": of,
         "timeout": timeout, "args": args}
    if miriflags:
        d["miriflags"] = miriflags
    return d


def wasm(name, cmd, procs=8, timeout=1200, **args):
    """wasm32 + simd128 under node/V8 - optional engine."""
    return {"name": name, "kind": "wasm", "config": "wasm", "cmd": cmd, "procs": procs, "bitmap": False,
            "timeout": timeout, "args": args, "optional_tool": "node"}


def distinct_note():
    return (" A case is one monitored interaction (entry point, haystack bytes, needle bytes, arguments, operation "
            "string); distinct_nontrivial = popcount of the OR-merged 2^27-bit bitmap of case hashes over the "
            "stage(s) that carry a bitmap (hash collisions only undercount); cases of the other stages are counted in "
            "evaluations but not in distinct_nontrivial.")


PLANS = {}

# ---------------------------------------------------------------------------
# C01 / C02

GRID_RULE = (
    "complete grid: haystack length 0..=L x placement (guard-right, guard-left, exact heap, arena offsets mod 64) x "
    "position of the first/last needle byte (every index, and absent) x filler variant x needle set (incl. 0x00/0x80/"
    "0xFF, duplicates, one-bit-apart), for every available implementation (top-level dispatch, arch::all SWAR, SSE2, "
    "AVX2; slice and raw forms), plus raw start>=end forms and multi-page haystacks (4 KiB..64 KiB, thorough ..1 MiB; random positions and the match at each of 1100 consecutive positions of an 8229-byte haystack); forced-CPU stages drive the real "
    "dispatcher into its SSE2-only and fallback branches; Miri stages run a boundary-focused sample of the same "
    "generator on x86_64 (SSE2 / +avx2), aarch64 (NEON), s390x (big-endian) and i686. Non-trivial = haystack "
    "non-empty." + distinct_note())


def byte_plan(cmd, oracle):
    return {
        "rule": GRID_RULE,
        "assumptions": [oracle, "Miri's emulation of the SSE2/AVX2/NEON intrinsics is faithful (little-endian targets)"],
        "exhaustive_note": "native stage: the (length<=L, placement set, match position) grid is enumerated completely "
                           "for the listed needle sets; L=200 quick, 451 thorough",
        "quick": [
            native("native", cmd, bitmap=True),
            native("native-sse2-dispatch", cmd, procs=4, force=1, only="top"),
            native("native-fallback-dispatch", cmd, procs=4, force=2, only="top"),
            wasm("wasm-simd128", cmd),
            miri("miri-x86_64", cmd, "miri-x86_64", procs=8, of=400),
            miri("miri-aarch64-neon", cmd, "miri-aarch64", procs=8, of=400),
            miri("miri-s390x-be", cmd, "miri-s390x", procs=4, of=160),
            miri("miri-i686", cmd, "miri-i686", procs=4, of=160),
        ],
        "thorough": [
            native("native", cmd, bitmap=True, timeout=7200),
            native("native-sse2-dispatch", cmd, force=1, only="top", timeout=7200),
            native("native-fallback-dispatch", cmd, force=2, only="top", timeout=7200),
            native("native-avx2-compiletime", cmd, config="relavx2", only="top", timeout=7200),
            native("native-nostd", cmd, config="relcore", only="top", timeout=7200),
            wasm("wasm-simd128", cmd, procs=16, timeout=7200),
            # thorough: a third of the boundary-focused sample on the vector
            # targets (rotating with the seed), half of it on the two word-at-a-time
            # targets (fewer entry points there)
            miri("miri-x86_64", cmd, "miri-x86_64", procs=16, of=48, timeout=7200),
            miri("miri-x86_64-avx2", cmd, "miri-x86_64-avx2", procs=16, of=48, timeout=7200),
            miri("miri-aarch64-neon", cmd, "miri-aarch64", procs=16, of=48, timeout=7200),
            miri("miri-s390x-be", cmd, "miri-s390x", procs=16, of=32, timeout=7200),
            miri("miri-i686", cmd, "miri-i686", procs=16, of=32, timeout=7200),
        ],
    }


PLANS["C01"] = byte_plan("C01", "oracle = first index whose byte is one of the needles (plain loop, no memchr code)")
PLANS["C02"] = byte_plan("C02", "oracle = last index whose byte is one of the needles (plain loop, no memchr code)")

# ---------------------------------------------------------------------------
# C03 / C04

SUB_RULE = (
    "(1) exhaustive: every needle over {a,b} up to length n x every haystack over {a,b} up to length h (quick 5x12, "
    "thorough 6x14), the same strings embedded at several offsets of 41..100-byte backgrounds, and {a,b,c} strings; "
    "(2) structured needle families (empty, 1 byte, a^k, a^k b, b a^k, u^k / u^k v / v u^k for |u|<=9, Fibonacci, "
    "Thue-Morse, bytes equal mod 64, two rare bytes at chosen indices incl. 254 and beyond, 257..300-byte needles whose "
    "rarest byte lies past offset 255, carry-chain runs, high-bit text, random over 2-4 letters "
    "and all bytes) at every threshold length (2..300, thorough ..4096) x haystack lengths around 16, 64 and the "
    "vector searchers' minimum x 7 needle-derived backgrounds (near matches, x.needle[1..] blocks, needle-minus-last "
    "blocks, windows equal on the last 32 bytes, shuffled needle bytes, broken periods) x planted occurrence at "
    "boundary offsets (every offset for short haystacks); (3) seeded random pairs with the needle cut out of the "
    "haystack; (4) prefilter-history haystacks; (5) long haystacks (4095/4096/4097/8197/65541 bytes; thorough twelve sizes "
    "up to 1 MiB) x every needle family up to 300 bytes x {absent-byte, near-miss, needle-factor, plain-text} backgrounds "
    "with no / one / two planted occurrences, plus four needles planted at every offset of a 600-byte window inside an "
    "8229-byte haystack. Entry points: one-shot, Finder, FinderBuilder with Prefilter::None / "
    "Auto. Non-trivial = both slices non-empty." + distinct_note())


def sub_plan(cmd, oracle):
    return {
        "rule": SUB_RULE,
        "assumptions": [oracle, "for haystack*needle > 2^16 the oracle is a textbook KMP (self-tested against the naive definition on exhaustive small strings)"],
        "exhaustive_note": "all (needle, haystack) pairs over {a,b} up to the stated lengths",
        "quick": [
            native("native", cmd, bitmap=True),
            native("native-sse2", cmd, procs=8, force=1),
            native("native-fallback", cmd, procs=8, force=2),
            wasm("wasm-simd128", cmd),
            miri("miri-x86_64", cmd, "miri-x86_64", procs=8, of=320),
            miri("miri-aarch64-neon", cmd, "miri-aarch64", procs=8, of=320),
        ],
        "thorough": [
            native("native", cmd, bitmap=True, timeout=7200),
            native("native-sse2", cmd, force=1, timeout=7200),
            native("native-fallback", cmd, force=2, timeout=7200),
            native("native-avx2-compiletime", cmd, config="relavx2", timeout=7200),
            wasm("wasm-simd128", cmd, procs=16, timeout=7200),
            miri("miri-x86_64", cmd, "miri-x86_64", procs=16, of=64, timeout=3600),
            miri("miri-x86_64-avx2", cmd, "miri-x86_64-avx2", procs=16, of=64, timeout=3600),
            miri("miri-aarch64-neon", cmd, "miri-aarch64", procs=16, of=64, timeout=3600),
            miri("miri-s390x-be", cmd, "miri-s390x", procs=8, of=128, timeout=3600),
        ],
    }


PLANS["C03"] = sub_plan("C03", "oracle = smallest offset with haystack[i..i+n] == needle by window comparison")
PLANS["C04"] = sub_plan("C04", "oracle = largest offset with haystack[i..i+n] == needle by window comparison")

# ---------------------------------------------------------------------------
# C05

C05_PARTS = ["mismatch", "bytes", "iters", "sub", "blocks", "misc"]


def c05_native(config, tier_timeout, judge_panics=0, prop="C05", suffix=""):
    out = []
    for i, part in enumerate(C05_PARTS):
        out.append(native("guard-%s-%s%s" % (config, part, suffix), "C05", config=config, bitmap=(i == 1 and config == "rel"),
                          timeout=(min(tier_timeout, 420) if part == "mismatch" else tier_timeout), part=part, panics=judge_panics, **{"as": prop}))
    return out


PLANS["C05"] = {
    "rule": (
        "every safe entry point (top-level functions, the three iterator types from both ends and count(), One/Two/"
        "Three of all/sse2/avx2 in slice and raw forms, packed-pair find/find_prefilter, Two-Way, Rabin-Karp, Shift-Or, "
        "is_equal/is_prefix/is_suffix, memmem::*, Finder*, Pair) is called with its haystack placed guard-right "
        "(last byte directly before a PROT_NONE page), guard-left (first byte directly after one), exact heap and "
        "arena offsets, and its needle likewise; the workloads are those of C01-C04, C06-C08, C11, C12, C16, C18, C19 "
        "plus 'mismatch': low-level searchers called with a needle that differs from the construction needle "
        "(shorter, longer, same length) and with haystacks below min_haystack_len. Only hardware faults (SIGSEGV/"
        "SIGBUS reporter), Miri memory/alignment reports and AddressSanitizer reports count; values and panics are "
        "judged by the owning properties. Non-trivial = haystack non-empty." + distinct_note()),
    "assumptions": [
        "a one-byte over-read lands on the guard page for guard-right placement and a one-byte under-read for guard-left; over-reads that stay inside the slice's own page are seen by Miri and ASan only",
        "Miri checks alignment by real address (no -Zmiri-symbolic-alignment-check, which would reject the crate's legitimate align-up arithmetic)",
        "under Miri packed-pair find is only given needles no longer than the haystack (pointer arithmetic below the allocation without a read is outside this property; DESIGN.md section 1)",
    ],
    "quick": (
        [native("fault-reporter-selftest", "selftest-fault", procs=1)]
        + c05_native("rel", 1200)
        + [wasm("wasm-memend-%s" % p_, "C05", part=p_, **{"as": "C05"}) for p_ in ("bytes", "iters", "sub", "blocks")]
        + [miri("miri-x86_64-rel-mismatch", "C05", "miri-x86_64-rel", procs=6, of=40, part="mismatch"),
           miri("miri-x86_64-rel-bytes", "C05", "miri-x86_64-rel", procs=6, of=1600, part="bytes"),
           miri("miri-aarch64-rel-bytes", "C05", "miri-aarch64-rel", procs=4, of=1600, part="bytes")]
    ),
    "thorough": (
        [native("fault-reporter-selftest", "selftest-fault", procs=1)]
        + c05_native("rel", 7200)
        + c05_native("plain", 7200)
        + c05_native("relavx2", 7200)
        + [wasm("wasm-memend-%s" % p_, "C05", procs=16, timeout=7200, part=p_, **{"as": "C05"}) for p_ in C05_PARTS]
        + [native("asan-%s" % p, "C05", config="asan", kind="asan", timeout=7200, part=p, place="heap", **{"as": "C05"})
           for p in C05_PARTS]
        + [miri("miri-%s-%s" % (cfg.replace("miri-", ""), part), "C05", cfg, procs=16, of=of, timeout=5400, part=part)
           for (cfg, parts) in [
               ("miri-x86_64-rel", ["mismatch", "bytes", "iters", "sub", "blocks", "misc"]),
               ("miri-x86_64-avx2-rel", ["mismatch", "bytes", "iters", "sub", "blocks", "misc"]),
               ("miri-aarch64-rel", ["mismatch", "bytes", "iters", "sub", "blocks", "misc"]),
               ("miri-x86_64", ["mismatch", "bytes"]),
               ("miri-s390x", ["bytes", "sub"]),
               ("miri-i686", ["bytes", "sub"])]
           for (part, of) in [("mismatch", 16), ("bytes", 400), ("iters", 64), ("sub", 128), ("blocks", 320), ("misc", 48)]
           if part in parts]
    ),
}

# ---------------------------------------------------------------------------
# C06 / C07 / C08


def iter_plan(cmd, rule, oracle, ofq, oft):
    return {
        "rule": rule + distinct_note(),
        "assumptions": [oracle],
        "quick": [
            native("native", cmd, bitmap=True),
            native("native-sse2-dispatch", cmd, procs=4, force=1, only="top"),
            native("native-fallback-dispatch", cmd, procs=4, force=2, only="top"),
            wasm("wasm-simd128", cmd),
            miri("miri-x86_64", cmd, "miri-x86_64", procs=6, of=ofq),
            miri("miri-aarch64-neon", cmd, "miri-aarch64", procs=6, of=ofq),
        ],
        "thorough": [
            native("native", cmd, bitmap=True, timeout=7200),
            native("native-sse2-dispatch", cmd, force=1, only="top", timeout=7200),
            native("native-fallback-dispatch", cmd, force=2, only="top", timeout=7200),
            wasm("wasm-simd128", cmd, procs=16, timeout=7200),
            miri("miri-x86_64", cmd, "miri-x86_64", procs=16, of=oft, timeout=3600),
            miri("miri-x86_64-avx2", cmd, "miri-x86_64-avx2", procs=16, of=oft, timeout=3600),
            miri("miri-aarch64-neon", cmd, "miri-aarch64", procs=16, of=oft, timeout=3600),
            miri("miri-s390x-be", cmd, "miri-s390x", procs=8, of=2 * oft, timeout=3600),
        ],
    }


PLANS["C06"] = iter_plan(
    "C06",
    "(1) exhaustive histories: every subset of match positions in haystacks of length <= L (quick 10, thorough 12) x "
    "every next/next_back string of length matches+2, plus one history per subset with count() on a clone after "
    "every step and a continue-on-clone in the middle, for Memchr/Memchr2/Memchr3 and the iter() of every "
    "One/Two/Three backend; (2) haystacks of length 16..=140 with up to 8 matches clustered on vector/unrolled-loop "
    "boundaries and both ends, all 2^(m+1) interleavings each; (3) seeded random interleavings (incl. clone and "
    "count ops) over long dense/sparse haystacks. size_hint is checked after every operation. Non-trivial = "
    "haystack non-empty.",
    "model = deque of all matching positions: next pops the front, next_back the back; size_hint must bracket the deque length",
    32, 8)

PLANS["C07"] = iter_plan(
    "C07",
    "count(), count_raw() and iter().count() of every One backend and Memchr::count on lengths 0..=L (quick 200, "
    "thorough 451) x placement sweep x densities {none, all, alternating, every third, random 1/64 1/8 1/2, exactly "
    "one match at every position}; partially consumed iterators: i next() and j next_back() calls (two orders) then "
    "count() on a clone, for every (i, j) up to a cap, on haystacks with 1..=all matching bytes. Non-trivial = "
    "haystack non-empty.",
    "oracle = number of bytes equal to the needle in the iterator's remaining window (deque model)",
    16, 6)

PLANS["C08"] = iter_plan(
    "C08",
    "find_iter / rfind_iter (top-level, via Finder/FinderRev, and into_owned with the needle buffer destroyed) on: "
    "self-overlapping needles (aa, aba, abab, aabaa, ...) and the empty needle in periodic haystacks of every length "
    "0..=70 and longer, with and without a defect; a^m in a^n; all needles over {a,b} up to 4/5 x haystacks up to "
    "11/14, also embedded in 100-300-byte backgrounds; structured needle families; long haystacks (4 KiB..64 KiB, thorough "
    "..1 MiB) with every needle family up to 300 bytes; prefilter-history haystacks "
    "(matches after the adaptive prefilter went inert and while it is still effective). Every iteration is driven to "
    "exhaustion plus three further calls, size_hint is checked before every next(), clone/into_owned ops are "
    "sprinkled in. Non-trivial = haystack non-empty.",
    "model = greedy non-overlapping sequence computed from all occurrences (KMP), mirrored for rfind_iter; empty needle = every offset",
    120, 24)
PLANS["C08"]["quick"][0]["require_cells"] = ["pre_went_inert"]
PLANS["C08"]["thorough"][0]["require_cells"] = ["pre_went_inert"]

# ---------------------------------------------------------------------------
# C09

C09_NATIVE = [
    ("default-avx2", "rel", {}),
    ("forced-sse2", "rel", {"force": 1}),
    ("forced-fallback", "rel", {"force": 2}),
    ("features-alloc", "relalloc", {}),
    ("features-none", "relcore", {}),
    ("compiletime-avx2", "relavx2", {}),
]

PLANS["C09"] = {
    "rule": (
        "one seeded case list (byte search fwd/rev x 1/2/3 needles on the full position grid for lengths <= 130/200 and on "
        "4095/4096/4097/8192/8193/65539-byte haystacks, short needles in 4 KiB..64 KiB haystacks, "
        "count, substring fwd/rev one-shot and Finder, Prefilter::None, collected find_iter/rfind_iter, Two-Way) through "
        "the entry points present in every configuration (top-level dispatch, memmem, arch::all). Each configuration "
        "judges every case against the oracle AND writes a transcript (case index, result digest); transcripts are "
        "compared entry by entry against the default configuration. Configurations: runtime detection -> AVX2; forced "
        "SSE2-only; forced fallback (SWAR + portable prefilter); features alloc-only; no features; -Ctarget-feature="
        "+avx2; Miri aarch64 (NEON), s390x (big-endian), i686 (32-bit) on every k-th case. Non-trivial = haystack "
        "non-empty." + distinct_note()),
    "assumptions": ["out of reach: x86_64 built without SSE2, aarch64 without NEON, aarch64_be, wasm32 simd128 (no executor in this sandbox that the brief lists); stated as not_run in the evidence"],
    "quick": (
        [native("cfg-" + n, "C09", config=c, bitmap=(i == 0), transcript="auto", **a) for i, (n, c, a) in enumerate(C09_NATIVE)]
        + [wasm("cfg-wasm32-simd128", "C09", procs=16, transcript="auto")]
        + [native("cfgB-default-native", "C09", config="rel", procs=640, tier="miri", transcript="auto"),
           miri("cfgB-miri-aarch64-neon", "C09", "miri-aarch64", procs=8, of=640, transcript="auto"),
           miri("cfgB-miri-s390x-be", "C09", "miri-s390x", procs=6, of=640, transcript="auto"),
           miri("cfgB-miri-i686", "C09", "miri-i686", procs=4, of=640, transcript="auto")]
    ),
    "thorough": (
        [native("cfg-" + n, "C09", config=c, bitmap=(i == 0), timeout=7200, transcript="auto", **a) for i, (n, c, a) in enumerate(C09_NATIVE)]
        + [wasm("cfg-wasm32-simd128", "C09", procs=16, transcript="auto", timeout=7200)]
        + [native("cfgB-default-native", "C09", config="rel", procs=640, tier="miri", transcript="auto"),
           miri("cfgB-miri-aarch64-neon", "C09", "miri-aarch64", procs=64, of=640, transcript="auto", timeout=5400),
           miri("cfgB-miri-s390x-be", "C09", "miri-s390x", procs=64, of=640, transcript="auto", timeout=5400),
           miri("cfgB-miri-i686", "C09", "miri-i686", procs=48, of=640, transcript="auto", timeout=5400),
           miri("cfgB-miri-x86_64-sse2", "C09", "miri-x86_64", procs=32, of=640, transcript="auto", timeout=5400),
           miri("cfgB-miri-x86_64-avx2", "C09", "miri-x86_64-avx2", procs=32, of=640, transcript="auto", timeout=5400)]
    ),
    "not_run": ["x86_64 without SSE2", "aarch64 without NEON", "aarch64_be", "wasm32 without simd128", "wasm32+simd128 when node is absent"],
}

# ---------------------------------------------------------------------------
# C10 / C11 / C12


def sub3(cmd, rule, oracle, ofq, oft, cells=None):
    p = {
        "rule": rule + distinct_note(),
        "assumptions": [oracle],
        "quick": [
            native("native", cmd, bitmap=True),
            native("native-sse2", cmd, procs=8, force=1),
            native("native-fallback", cmd, procs=8, force=2),
            wasm("wasm-simd128", cmd),
            miri("miri-x86_64", cmd, "miri-x86_64", procs=6, of=ofq),
            miri("miri-aarch64-neon", cmd, "miri-aarch64", procs=6, of=ofq),
        ],
        "thorough": [
            native("native", cmd, bitmap=True, timeout=7200),
            native("native-sse2", cmd, force=1, timeout=7200),
            native("native-fallback", cmd, force=2, timeout=7200),
            wasm("wasm-simd128", cmd, procs=16, timeout=7200),
            miri("miri-x86_64", cmd, "miri-x86_64", procs=16, of=oft, timeout=3600),
            miri("miri-x86_64-avx2", cmd, "miri-x86_64-avx2", procs=16, of=oft, timeout=3600),
            miri("miri-aarch64-neon", cmd, "miri-aarch64", procs=16, of=oft, timeout=3600),
        ],
    }
    if cells:
        p["quick"][0]["require_cells"] = cells
        p["thorough"][0]["require_cells"] = cells
    return p


PLANS["C10"] = sub3(
    "C10",
    "for each (needle, haystack) of the C03 generators (exhaustive small strings, structured families up to 320/1100 "
    "bytes, prefilter-history haystacks): find with Prefilter::None and Auto under the default ranker, and under 3-6 "
    "of 11 rankers (constant 0/250/251/255, identity, reversed, seeded random, needle-bytes-most-common, "
    "needle-bytes-rarest, four-valued, random-with-needle-bytes-above-250) x both prefilter settings, plus the "
    "collected find_iter under the same configuration; on the prefilter-history haystacks every ranker x both "
    "settings. The forced-fallback stage makes Searcher::new build the portable prefilter (rank cut-off 250). "
    "Non-trivial = both slices non-empty.",
    "oracle = naive leftmost occurrence / greedy sequence; all configurations must equal it, hence each other",
    600, 120, ["pre_went_inert", "pre_find_simple", "kind_two_way", "kind_two_way_pre"])

PLANS["C11"] = sub3(
    "C11",
    "find_prefilter of arch::all, SSE2 and AVX2 packed-pair finders (NEON under Miri) built with new() and with_pair "
    "for every valid (index1, index2) of needles up to 8 (14 thorough) bytes and a spread of pairs incl. 0/254, 254/253, "
    "255 for longer needles (structured families up to 300/1000 bytes); haystack lengths min..min+67 (+ more thorough) x "
    "fillers {absent byte, shuffled needle bytes, byte1 only, byte2 only, alternating byte1/byte2, near matches} x first "
    "occurrence planted at boundary offsets (every offset for short haystacks) or absent. Non-trivial = always.",
    "oracle: needle occurs at p => Some(c) with c <= p; None => no occurrence; Some(c) => both pair bytes present at c+index1, c+index2",
    500, 48)

PLANS["C12"] = sub3(
    "C12",
    "twoway::{Finder,FinderRev}, rabinkarp::{Finder,FinderRev} (slice and raw), shiftor::Finder (needle lengths "
    "0..=20 for the constructor domain) and {sse2,avx2}::packedpair::Finder::{new,with_pair,find} (haystack >= "
    "min_haystack_len) on: all needles over {a,b} up to 6/8 x haystacks up to 13/16, {a,b,c} up to 4x8 / 5x10, the "
    "same embedded just above the vector minimum, structured families (u^k, u^k v, Fibonacci, mod-64 twins, "
    "last-32-bytes-equal windows for Rabin-Karp), seeded random pairs, explicit index pairs. Non-trivial = both "
    "slices non-empty.",
    "oracle = naive leftmost / rightmost occurrence; constructors: shiftor Some iff len<=15, packedpair::new None iff len<2",
    600, 128, ["tw_fwd_small", "tw_fwd_large", "tw_rev_small", "tw_rev_large", "rk_fwd_confirm_fail", "pp_tail_hit"])

# ---------------------------------------------------------------------------
# C13

PLANS["C13"] = {
    "rule": (
        "elementary steps (byte comparisons, vector chunk inspections, hash updates, loop iterations - the cfg(memchr_"
        "verif) counter) of Finder::new+find, FinderRev::new+rfind, memmem::find/rfind, Prefilter::None, and complete "
        "find_iter/rfind_iter traversals must stay <= 24*(haystack+needle)+4096, and steps/byte may not grow by more "
        "than 1.5x+0.5 from one haystack size to the next (8x larger). 14 adversarial families (a^(m-1)b in a^n and in "
        "(a^(m-1)c)^r, b a^(m-1) in a^n, (ab)^k / (aab)^k in their near-periods, u^k v in x.needle[1..] blocks, rare "
        "pair at every position, Fibonacci in Fibonacci, Thue-Morse in Thue-Morse, candidate-free prefix then dense "
        "false candidates, dense false candidates from byte 0, a^m in a^n, needle-minus-last blocks, random binary), "
        "each also mirrored for the reverse searchers, m = 2..2048 (thorough ..65536), n = 4Ki..256Ki (thorough ..8Mi); "
        "plus the C03 structured pairs, prefilter-history haystacks and exhaustive binary strings for the constant term; "
        "repeated with the dispatcher forced to SSE2-only and to the fallback. Non-trivial = both slices non-empty." + distinct_note()),
    "assumptions": ["K=24, C=4096 derived in DESIGN.md section 5 (calibrated worst legitimate ratio 9.03)", "results are also checked against the oracle (KMP for large inputs)"],
    "quick": [
        native("native", "C13", bitmap=True),
        native("native-sse2", "C13", force=1),
        native("native-fallback", "C13", force=2),
        wasm("wasm-simd128", "C13"),
    ],
    "thorough": [
        native("native", "C13", bitmap=True, timeout=7200),
        native("native-sse2", "C13", force=1, timeout=7200),
        native("native-fallback", "C13", force=2, timeout=7200),
        wasm("wasm-simd128", "C13", procs=16, timeout=7200),
    ],
}

# ---------------------------------------------------------------------------
# C14


def c14_parts(config, timeout):
    out = []
    for i, part in enumerate(C05_PARTS[1:]):
        out.append(native("dbg-%s" % part if config == "dbg" else "%s-%s" % (config, part), "C05", config=config,
                          bitmap=(i == 0 and config == "dbg"), timeout=timeout, part=part, panics=1, **{"as": "C14"}))
    return out


PLANS["C14"] = {
    "rule": (
        "the workloads of C01-C04, C06-C08, C11, C12, C16, C18, C19 (part=bytes/iters/sub/blocks/misc) are executed in a "
        "build with debug-assertions and overflow-checks on (opt-level 2) and every call runs under catch_unwind: any "
        "panic, abort or signal is a violation (values are judged by the owning properties); plus the panic-exactness "
        "sweep: {sse2,avx2}::packedpair::Finder::{find,find_prefilter} on every haystack length 0..=min_haystack_len+40 "
        "for needles 2..=40, 255, 300 bytes and several pairs must panic with the documented message iff haystack.len() "
        "< min_haystack_len(), and otherwise answer correctly. Non-trivial = haystack non-empty." + distinct_note()),
    "assumptions": ["out-of-domain calls (mismatched needles) are made only by C05 and are not judged here"],
    "quick": c14_parts("dbg", 1200) + [native("rel-panic-exactness", "C14", config="rel"),
                                        native("dbg-sub-fallback", "C05", config="dbg", procs=8, part="sub", panics=1, force=2, **{"as": "C14"}),
                                        miri("miri-x86_64-panic-exactness", "C14", "miri-x86_64", procs=4, of=12)],
    "thorough": c14_parts("dbg", 7200) + [native("rel-panic-exactness", "C14", config="rel", timeout=3600)] + [
        native("dbg-%s-force%d" % (part, f), "C05", config="dbg", part=part, panics=1, force=f, timeout=7200, **{"as": "C14"})
        for part in ("bytes", "sub", "blocks") for f in (1, 2)
    ] + [miri("miri-x86_64-panic-exactness", "C14", "miri-x86_64", procs=8, of=8, timeout=3600),
         miri("miri-x86_64-avx2-panic-exactness", "C14", "miri-x86_64-avx2", procs=8, of=8, timeout=3600)],
}

# ---------------------------------------------------------------------------
# C15

PLANS["C15"] = {
    "rule": (
        "one process = one first-call race: T in {2,3,4,8,16,32} threads (chosen by process index), each released from a "
        "barrier, performs its first calls to memchr, memrchr, memchr2, memrchr2, memchr3, memrchr3 and Memchr::count "
        "in a thread-specific order on thread-specific haystacks, then 50 more mixed calls; the failpoint hook inside "
        "`detect` (between choosing and storing the implementation) counts simultaneously present threads per routine and "
        "injects seeded yields/spins; the CPU level is forced to AVX2 / SSE2-only / fallback by process index. Then shared "
        "objects: one Finder and FinderRev shared by reference, owned finders moved into threads, find_iter through the "
        "shared finder, partially consumed Memchr/Memchr2/Memchr3/FindIter/FindRevIter clones continued on other threads "
        "(forwards and backwards). Every return value is compared with the sequential oracle computed before the barrier. "
        "Miri (many seeds, preemption) and ThreadSanitizer run the same program for data races. Non-trivial = every call; "
        "a case = (routine, haystack, needles)." + distinct_note()),
    "assumptions": ["evidence counter slots_with_2plus_racers = number of (process, routine) pairs in which at least two threads were inside the installation window at once"],
    "quick": [
        native("race-native", "C15", procs=320, bitmap=True, threads=0, force="auto", parallel=16),
        miri("race-miri-x86_64", "C15", "miri-x86_64", procs=2, of=1 << 20, threads=3,
             miriflags="-Zmiri-many-seeds=0..24 -Zmiri-preemption-rate=0.1"),
    ],
    "thorough": [
        native("race-native", "C15", procs=6000, bitmap=True, threads=0, force="auto", parallel=16, timeout=600),
        native("race-tsan", "C15", config="tsan", kind="tsan", procs=240, threads=0, force="auto", parallel=16, timeout=600),
        miri("race-miri-x86_64", "C15", "miri-x86_64", procs=4, of=1 << 20, threads=3, timeout=5400,
             miriflags="-Zmiri-many-seeds=0..128 -Zmiri-preemption-rate=0.1"),
        miri("race-miri-x86_64-4t", "C15", "miri-x86_64", procs=2, of=1 << 20, threads=4, timeout=5400,
             miriflags="-Zmiri-many-seeds=0..64 -Zmiri-preemption-rate=0.05"),
        miri("race-miri-x86_64-avx2", "C15", "miri-x86_64-avx2", procs=2, of=1 << 20, threads=3, timeout=5400,
             miriflags="-Zmiri-many-seeds=0..64 -Zmiri-preemption-rate=0.1"),
        miri("race-miri-aarch64", "C15", "miri-aarch64", procs=2, of=1 << 20, threads=3, timeout=5400,
             miriflags="-Zmiri-many-seeds=0..32 -Zmiri-preemption-rate=0.1"),
    ],
}
for _t in ("quick", "thorough"):
    PLANS["C15"][_t][0]["parallel"] = 16
    for _s in PLANS["C15"][_t]:
        if "parallel" in _s["args"]:
            _s["parallel"] = _s["args"].pop("parallel")

# ---------------------------------------------------------------------------
# C16

PLANS["C16"] = {
    "rule": (
        "histories: one Finder / FinderRev applied to a seeded sequence of 20-200 haystacks (lengths on both sides of every "
        "routing threshold, 7 needle-derived backgrounds, planted occurrences), interleaved with as_ref().find, clone (continue "
        "on the clone), needle(), a full find_iter/rfind_iter traversal, and into_owned after which the original needle buffer "
        "is overwritten and freed; every result must equal the oracle for (needle, that haystack) and a fresh finder's result. "
        "Prefilter-exhausting haystacks are interleaved with ordinary ones. Iterators: clone / into_owned at every step index of "
        "find_iter / rfind_iter traversals, the copy driven to the end. Non-trivial = always; a case = one whole history." + distinct_note()),
    "assumptions": ["oracle = naive/KMP leftmost (rightmost) occurrence per haystack"],
    "quick": [
        native("native", "C16", bitmap=True),
        native("native-fallback", "C16", procs=8, force=2),
        wasm("wasm-simd128", "C16"),
        miri("miri-x86_64", "C16", "miri-x86_64", procs=6, of=36),
    ],
    "thorough": [
        native("native", "C16", bitmap=True, timeout=7200),
        native("native-sse2", "C16", force=1, timeout=7200),
        native("native-fallback", "C16", force=2, timeout=7200),
        native("asan", "C16", config="asan", kind="asan", timeout=7200),
        miri("miri-x86_64", "C16", "miri-x86_64", procs=16, of=16, timeout=3600),
        miri("miri-aarch64", "C16", "miri-aarch64", procs=16, of=16, timeout=3600),
    ],
}

# ---------------------------------------------------------------------------
# C17

PLANS["C17"] = {
    "rule": (
        "a counting #[global_allocator] is armed on the calling thread immediately around each memchr call (inputs and oracle "
        "work are outside the window). Monitored: Finder::new / FinderRev::new / FinderBuilder with rankers (borrowed needle), "
        "find, rfind, memmem::find/rfind, every next() of find_iter/rfind_iter, Two-Way, Rabin-Karp, packed-pair find and "
        "find_prefilter, all memchr-family functions (slice and raw, all backends), count, and iterator histories (next, "
        "next_back, count, clone), over the C03 exhaustive/structured/prefilter-history pairs and a byte-search length sweep; "
        "repeated with forced SSE2-only / fallback dispatch and with the crate built with features=alloc only. Positive "
        "controls in the same run: FindIter::into_owned and shiftor::Finder::new must show allocations. Non-trivial = always." + distinct_note()),
    "assumptions": ["panicking calls (which allocate their message) are not part of this workload"],
    "quick": [
        native("native", "C17", bitmap=True),
        native("native-sse2", "C17", procs=8, force=1),
        native("native-fallback", "C17", procs=8, force=2),
        native("native-alloc-feature-only", "C17", config="relalloc", procs=8),
        wasm("wasm-simd128", "C17"),
    ],
    "thorough": [
        native("native", "C17", bitmap=True, timeout=7200),
        native("native-sse2", "C17", force=1, timeout=7200),
        native("native-fallback", "C17", force=2, timeout=7200),
        native("native-alloc-feature-only", "C17", config="relalloc", timeout=7200),
        native("native-avx2-compiletime", "C17", config="relavx2", timeout=7200),
    ],
}

# ---------------------------------------------------------------------------
# C18 / C19

PLANS["C18"] = {
    "rule": (
        "is_equal and is_equal_raw on lengths 0..=L (quick 64, thorough 80): equal, one differing byte at every position with "
        "three different flipped bits, two differing bytes; x all 64 (alignment of x mod 8, alignment of y mod 8) pairs plus "
        "guard-right/guard-left combinations and exact heap; different lengths; is_prefix / is_suffix for all (hlen, nlen) "
        "up to 28/40 incl. nlen > hlen, true prefix/suffix and a difference at every needle position; all four functions on "
        "ALIASED operands - two windows of one placed buffer (length <= 40/72, four contents incl. periodic): same start with "
        "different lengths, empty slice at one-past-the-end against the other half, identical windows, windows shifted by "
        "1/2/5/8/16. Non-trivial = non-empty." + distinct_note()),
    "assumptions": ["oracle = slice ==, starts_with, ends_with"],
    "exhaustive_note": "thorough: every (length<=80, differing position, alignment pair) combination listed is enumerated",
    "quick": [
        native("native", "C18", bitmap=True),
        native("native-dbg", "C18", config="dbg", procs=8),
        wasm("wasm32", "C18"),
        miri("miri-x86_64", "C18", "miri-x86_64", procs=4, of=20),
        miri("miri-s390x-be", "C18", "miri-s390x", procs=4, of=20),
    ],
    "thorough": [
        native("native", "C18", bitmap=True, timeout=3600),
        native("native-dbg", "C18", config="dbg", timeout=3600),
        native("asan", "C18", config="asan", kind="asan", timeout=3600),
        miri("miri-x86_64", "C18", "miri-x86_64", procs=16, of=16, timeout=3600),
        miri("miri-s390x-be", "C18", "miri-s390x", procs=16, of=16, timeout=3600),
        miri("miri-i686", "C18", "miri-i686", procs=8, of=16, timeout=3600),
    ],
}

PLANS["C19"] = {
    "rule": (
        "Pair::new and Pair::with_ranker on needle lengths 0..=70 and 100..600 (thorough: every length 0..=600) x shapes {single "
        "letter, two letters, all-distinct ascending/descending, random, 'et ' text, one odd byte at position k (thorough: every "
        "k <= 260)} x 11 rankers; Pair::with_indices for all 65536 (a, b) on needle lengths {0,1,2,3,17,100,254,255,256,300}; "
        "pair() of the arch::all, SSE2 and AVX2 finders built from such pairs. Non-trivial = needle of at least 2 bytes." + distinct_note()),
    "assumptions": ["oracle: None iff len<2, else distinct offsets inside the needle and <= 254; with_indices Some iff a!=b and both in range, and reports (a,b)"],
    "quick": [
        native("native", "C19", bitmap=True),
        native("native-dbg", "C19", config="dbg", procs=8),
        wasm("wasm-simd128", "C19"),
        miri("miri-x86_64", "C19", "miri-x86_64", procs=4, of=14),
    ],
    "thorough": [
        native("native", "C19", bitmap=True, timeout=3600),
        native("native-dbg", "C19", config="dbg", timeout=3600),
        miri("miri-x86_64", "C19", "miri-x86_64", procs=16, of=16, timeout=3600),
        miri("miri-aarch64", "C19", "miri-aarch64", procs=8, of=16, timeout=3600),
    ],
}


# ---------------------------------------------------------------------------
# post-processing hooks: post(out, plan, vlib)

def _load_tx(path):
    import array
    a = array.array("Q")
    try:
        with open(path, "rb") as f:
            data = f.read()
    except OSError:
        return None
    a.frombytes(data[: len(data) // 16 * 16])
    return dict(zip(a[0::2], a[1::2]))


def post_c09(out, plan, vlib):
    """Compare every configuration's transcript with the reference entry by entry."""
    import glob
    import os as _os
    refs = {}
    for ref_stage in ("cfg-default-avx2", "cfgB-default-native"):
        refs[ref_stage] = {}
        for p in glob.glob(_os.path.join(out.tmpdir, "tx.%s.*" % ref_stage)):
            refs[ref_stage][int(p.rsplit(".", 1)[1])] = _load_tx(p)
    summary = {}
    compared = 0
    for st in plan[out.tier]:
        name = st["name"]
        ref_stage = "cfgB-default-native" if name.startswith("cfgB-") else "cfg-default-avx2"
        ref = refs[ref_stage]
        files = glob.glob(_os.path.join(out.tmpdir, "tx.%s.*" % name))
        entries = 0
        status = "identical"
        for p in files:
            shard = int(p.rsplit(".", 1)[1])
            tx = _load_tx(p)
            if tx is None:
                continue
            entries += len(tx)
            if name == ref_stage:
                continue
            base = ref.get(shard)
            if base is None:
                out.inconclusive.append("C09: no reference transcript for shard %d (stage %s)" % (shard, name))
                status = "no-reference"
                continue
            for idx, dig in tx.items():
                b = base.get(idx)
                if b is None:
                    continue  # case not applicable in the reference (skipped there)
                compared += 1
                if b != dig:
                    status = "DIFFERENT"
                    v = _c09_witness(out, st, shard, idx, vlib)
                    v.update({"t": "fail", "prop": "C09", "kind": "config-mismatch", "stage": name, "config": st["config"],
                              "msg": "case #%d of shard %d: configuration %s (%s) returned digest %d, reference %s returned %d"
                                     % (idx, shard, name, st["config"], dig, ref_stage, b)})
                    out.violations.append(v)
                    break
        if files:
            summary[name] = {"config": st["config"], "args": {k: v for k, v in st.get("args", {}).items() if k in ("force", "stride")},
                             "transcript_entries": entries, "vs_reference": "reference" if name == ref_stage else status}
        elif not any(s["name"] == name for s in out.stages):
            summary[name] = {"config": st["config"], "vs_reference": "stage not run"}
        else:
            summary[name] = {"config": st["config"], "vs_reference": "no transcript written"}
            if not any(s["name"] == name and s["status"] in ("build-failed", "prepare-failed") for s in out.stages):
                out.inconclusive.append("C09: stage %s wrote no transcript" % name)
    out.extra_evidence = {"configurations": summary, "transcript_entries_compared": compared}
    # each forced configuration must really have taken its dispatch branch
    for st in out.stages:
        pass


def _c09_witness(out, st, shard, idx, vlib):
    """Re-run the differing case with dump=idx to print it."""
    try:
        args = dict(st.get("args", {}))
        args.update({"tier": args.get("tier", out.tier), "seed": out.seed, "config": st["config"], "shard": shard,
                     "nshards": st.get("of", st.get("procs", vlib.NCPU)), "dump": idx})
        args.pop("transcript", None)
        argv = [st["cmd"]] + ["%s=%s" % kv for kv in args.items()]
        if st["kind"] == "miri":
            cmd, env = vlib.miri_cmd(st["config"], argv)
        else:
            cmd, env = [vlib.build(st["config"])] + argv, dict(vlib.BASE_ENV)
        r = vlib.run_one(cmd, env, 1200)
        case = None
        for l in r.lines:
            if l.get("t") == "case":
                case = l
        return dict(case or {})
    except Exception as e:  # witness is best effort
        return {"witness_error": repr(e)}


PLANS["C09"]["post"] = post_c09


def post_c13(out, plan, vlib):
    fam = {k[len("max_ratio_milli_family_"):]: v / 1000.0 for k, v in out.counters.items() if k.startswith("max_ratio_milli_family_")}
    out.extra_evidence = {
        "max_ratio": out.counters.get("max_ratio_milli", 0) / 1000.0,
        "bound": "steps <= 24*(haystack+needle)+4096",
        "max_ratio_per_family": fam,
    }
    if out.counters.get("max_steps", 0) == 0 and not out.violations:
        out.inconclusive.append("C13: the step counter never moved (hooks not compiled in?)")


PLANS["C13"]["post"] = post_c13


def post_c15(out, plan, vlib):
    hist = {k[len("racers_hist_"):]: v for k, v in out.counters.items() if k.startswith("racers_hist_")}
    out.extra_evidence = {
        "racers_histogram": hist,
        "slots_with_2plus_racers": out.counters.get("slots_with_2plus_racers", 0),
        "slots_raced": out.counters.get("slots_raced", 0),
        "max_concurrent_installers": out.counters.get("max_concurrent_installers", 0),
        "processes": out.counters.get("processes", 0),
    }
    if out.counters.get("slots_with_2plus_racers", 0) == 0 and not out.violations:
        out.inconclusive.append("C15: no process observed two threads inside the installation window at once")


PLANS["C15"]["post"] = post_c15


def post_c17(out, plan, vlib):
    ctl = {k: v for k, v in out.counters.items() if k.startswith("control_")}
    out.extra_evidence = {"positive_controls": ctl}
    if ctl.get("control_into_owned_calls", 0) == 0 or ctl.get("control_into_owned_allocs", 0) == 0 \
            or ctl.get("control_shiftor_allocs", 0) == 0:
        if not out.violations:
            out.inconclusive.append("C17: positive controls (into_owned / Shift-Or) showed no allocation: the allocator probe is blind")


PLANS["C17"]["post"] = post_c17


def post_c05(out, plan, vlib):
    start = {k[len("hay_start_mod64_"):]: v for k, v in out.counters.items() if k.startswith("hay_start_mod64_")}
    end = {k[len("hay_end_mod64_"):]: v for k, v in out.counters.items() if k.startswith("hay_end_mod64_")}
    out.extra_evidence = {
        "alignment_histogram": {"haystack_start_mod_64": start, "haystack_end_mod_64": end},
        "placements": {k: v for k, v in out.counters.items() if k.startswith("placed_")},
        "faults": sum(1 for v in out.violations if v.get("kind") == "fault"),
    }
    for k in list(out.counters):
        if k.startswith("hay_start_mod64_") or k.startswith("hay_end_mod64_"):
            del out.counters[k]


PLANS["C05"]["post"] = post_c05
