#!/usr/bin/env python3
"""MANIFEST.setup_cmd: build the worker in the configurations the quick checks
use, and the Miri sysroots. Everything is also built on demand by ./check, so a
failure here is reported but does not make the checks undecidable."""
import os
import sys
import time
from concurrent.futures import ThreadPoolExecutor

sys.path.insert(0, os.path.join(os.path.dirname(os.path.abspath(__file__)), "lib"))
import vlib  # noqa: E402

NATIVE = ["rel", "dbg", "relavx2", "relalloc", "relcore"]
MIRI = ["miri-x86_64", "miri-aarch64", "miri-x86_64-rel", "miri-aarch64-rel", "miri-s390x"]
if "--all" in sys.argv:
    NATIVE += ["plain", "asan", "tsan"]
    MIRI += ["miri-x86_64-avx2", "miri-x86_64-avx2-rel", "miri-i686"]


def one(name):
    t0 = time.time()
    try:
        if name in vlib.CONFIGS:
            vlib.build(name)
            ok, out = True, ""
        else:
            ok, out = vlib.miri_prepare(name)
    except vlib.BuildError as e:
        ok, out = False, str(e)
    return name, ok, time.time() - t0, out


def main():
    bad = 0
    # native builds in parallel (separate target dirs); Miri targets one after
    # another per target (they share the sysroot cache), two at a time
    with ThreadPoolExecutor(max_workers=4) as ex:
        for name, ok, dt, out in ex.map(one, NATIVE):
            print("setup: %-22s %s (%.1fs)" % (name, "ok" if ok else "FAILED", dt))
            if not ok:
                bad += 1
                print(out[-2000:])
    with ThreadPoolExecutor(max_workers=2) as ex:
        for name, ok, dt, out in ex.map(one, MIRI):
            print("setup: %-22s %s (%.1fs)" % (name, "ok" if ok else "FAILED", dt))
            if not ok:
                bad += 1
                print(out[-2000:])
    # optional engine: wasm32 + simd128 under node
    if vlib.find_node():
        t0 = time.time()
        try:
            vlib.build_wasm()
            print("setup: %-22s ok (%.1fs)" % ("wasm32-simd128", time.time() - t0))
        except vlib.BuildError as e:
            bad += 1
            print("setup: wasm32-simd128 FAILED\n" + str(e)[-2000:])
    else:
        print("setup: node not found - wasm32 simd128 stages will be skipped")
    return 1 if bad else 0


if __name__ == "__main__":
    sys.exit(main())
