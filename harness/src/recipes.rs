//! Deterministic (needle, haystack) recipes for the C13 size families, so
//! that multi-megabyte cases can be replayed from a short string
//! `family:m:n:variant`.

#[allow(unused_imports)]
use crate::prelude::*;
use crate::gen;

pub const FAMILIES: &[&str] = &[
    "a^(m-1)b_in_a^n",        // 0
    "a^(m-1)b_in_(a^(m-1)c)^r", // 1
    "b.a^(m-1)_in_a^n",       // 2
    "(ab)^k_near_periods",    // 3
    "(aab)^k_near_periods",   // 4
    "u^k.v_x.needle[1..]",    // 5
    "rare_pair_everywhere",   // 6
    "fib_in_fib",             // 7
    "thue_in_thue",           // 8
    "free_prefix_then_dense", // 9
    "dense_from_zero",        // 10
    "a^m_in_a^n",             // 11
    "needle_minus_last_blocks", // 12
    "random_binary",          // 13
];

pub fn build(family: usize, m: usize, n: usize, variant: u64) -> (Vec<u8>, Vec<u8>) {
    let m = m.max(2);
    let mut hay: Vec<u8> = Vec::with_capacity(n + m);
    let ndl: Vec<u8>;
    match family {
        0 => {
            let mut x = vec![b'a'; m];
            x[m - 1] = b'b';
            ndl = x;
            hay.resize(n, b'a');
        }
        1 => {
            let mut x = vec![b'a'; m];
            x[m - 1] = b'b';
            ndl = x;
            while hay.len() < n {
                for _ in 0..m - 1 {
                    hay.push(b'a');
                }
                hay.push(b'c');
            }
            hay.truncate(n);
        }
        2 => {
            let mut x = vec![b'a'; m];
            x[0] = b'b';
            ndl = x;
            hay.resize(n, b'a');
        }
        3 | 4 => {
            let u: &[u8] = if family == 3 { b"ab" } else { b"aab" };
            ndl = gen::repeat_to(u, m);
            // haystack of the needle's near-periods: period broken every m-1
            for i in 0..n {
                if i % (m - 1).max(1) == m.saturating_sub(2) {
                    hay.push(b'#');
                } else {
                    hay.push(u[i % u.len()]);
                }
            }
        }
        5 => {
            let u = b"abcab";
            let mut x = gen::repeat_to(u, m);
            x[m - 1] = b'v';
            ndl = x;
            while hay.len() < n {
                hay.push(b'x');
                hay.extend_from_slice(&ndl[1..]);
            }
            hay.truncate(n);
        }
        6 => {
            // common letters + 'Z' 'q' adjacent; haystack alternates Z/q so the
            // rare pair recurs at every other position
            let common = b"etaoin shrdlu";
            let mut x: Vec<u8> = (0..m).map(|i| common[(i * 5 + i / 7) % common.len()]).collect();
            let i1 = (m / 3).min(250);
            let i2 = if i1 + 1 < m { i1 + 1 } else { i1 - 1 };
            x[i1] = b'Z';
            x[i2] = b'q';
            ndl = x;
            for i in 0..n {
                hay.push(if i % 2 == (i1 % 2) { b'Z' } else { b'q' });
            }
        }
        7 => {
            ndl = gen::fib_word(m);
            hay = gen::fib_word(n);
            // break exact occurrences now and then so the search keeps going
            let step = (m * 3).max(7);
            let mut i = step;
            while i < n {
                hay[i] = b'c';
                i += step;
            }
        }
        8 => {
            ndl = gen::thue_morse(m);
            hay = gen::thue_morse(n);
            let step = (m * 3).max(7);
            let mut i = step;
            while i < n {
                hay[i] = b'c';
                i += step;
            }
        }
        9 | 10 => {
            let common = b"etaoin shrdlu";
            let mut x: Vec<u8> = (0..m).map(|i| common[(i * 5 + i / 7) % common.len()]).collect();
            let i1 = (m / 2).min(200);
            let i2 = if i1 + 1 < m { i1 + 1 } else { i1 - 1 };
            x[i1] = b'Z';
            x[i2] = b'q';
            ndl = x;
            let free = if family == 9 { n / 2 } else { 0 };
            for i in 0..free {
                hay.push(common[i % common.len()]);
            }
            while hay.len() < n {
                hay.push(if hay.len() % 2 == 0 { b'Z' } else { b'q' });
            }
        }
        11 => {
            ndl = vec![b'a'; m];
            hay.resize(n, b'a');
        }
        12 => {
            let mut rng = crate::util::Rng::new(variant ^ 0x1212);
            let mut x = vec![0u8; m];
            rng.fill(&mut x, b"ab");
            ndl = x;
            while hay.len() < n {
                hay.extend_from_slice(&ndl[..m - 1]);
                hay.push(b'#');
            }
            hay.truncate(n);
        }
        _ => {
            let mut rng = crate::util::Rng::new(variant ^ 0x1313);
            let mut x = vec![0u8; m];
            rng.fill(&mut x, b"ab");
            ndl = x;
            hay.resize(n, 0);
            rng.fill(&mut hay, b"ab");
        }
    }
    if variant & 1 == 1 {
        // mirror: the same family "in the reverse sense"
        let mut h = hay;
        h.reverse();
        let mut x = ndl;
        x.reverse();
        return (h, x);
    }
    (hay, ndl)
}

pub fn recipe(family: usize, m: usize, n: usize, variant: u64) -> String {
    format!("{}:{}:{}:{}", family, m, n, variant)
}

/// Returns (haystack, needle).
pub fn rebuild(s: &str) -> Option<(Vec<u8>, Vec<u8>)> {
    let mut it = s.split(':');
    let f: usize = it.next()?.parse().ok()?;
    let m: usize = it.next()?.parse().ok()?;
    let n: usize = it.next()?.parse().ok()?;
    let v: u64 = it.next()?.parse().ok()?;
    Some(build(f, m, n, v))
}
