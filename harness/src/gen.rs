//! Generators for substring-search workloads: needle families and haystacks
//! derived from the needle.

#[allow(unused_imports)]
use crate::prelude::*;
use crate::util::Rng;

pub fn fib_word(len: usize) -> Vec<u8> {
    // a, ab, aba, abaab, ...
    let mut a: Vec<u8> = vec![b'a'];
    let mut b: Vec<u8> = vec![b'a', b'b'];
    while b.len() < len {
        let mut c = b.clone();
        c.extend_from_slice(&a);
        a = b;
        b = c;
    }
    b.truncate(len);
    b
}

pub fn thue_morse(len: usize) -> Vec<u8> {
    (0..len).map(|i| if (i as u64).count_ones() % 2 == 0 { b'a' } else { b'b' }).collect()
}

pub fn repeat_to(u: &[u8], len: usize) -> Vec<u8> {
    (0..len).map(|i| u[i % u.len()]).collect()
}

pub const THRESHOLD_LENS: &[usize] = &[
    2, 3, 4, 5, 7, 8, 9, 15, 16, 17, 31, 32, 33, 34, 47, 63, 64, 65, 100, 254, 255, 256, 257, 300,
];
pub const LONG_LENS: &[usize] = &[600, 1000, 4096];

/// A named needle.
pub struct Needle {
    pub name: String,
    pub bytes: Vec<u8>,
}

fn nd(name: String, bytes: Vec<u8>) -> Needle {
    Needle { name, bytes }
}

/// Structured needle families. `level` 0 = miri (tiny), 1 = quick, 2 = thorough.
pub fn needle_families(level: u8, rng: &mut Rng) -> Vec<Needle> {
    let mut v = Vec::new();
    v.push(nd("empty".into(), vec![]));
    v.push(nd("one".into(), vec![b'z']));
    v.push(nd("one-ff".into(), vec![0xFF]));
    let lens: Vec<usize> = match level {
        0 => vec![2, 3, 8, 16, 17, 32, 33, 34, 65, 255, 256, 300],
        1 => THRESHOLD_LENS.iter().copied().filter(|l| ![5usize, 9, 47, 63, 100, 257].contains(l)).collect(),
        _ => THRESHOLD_LENS.iter().chain(LONG_LENS.iter()).copied().collect(),
    };
    let us: Vec<&[u8]> = match level {
        0 => vec![b"ab", b"aab"],
        1 => vec![b"a", b"ab", b"aab", b"abcab", b"abacabad"],
        _ => vec![b"a", b"ab", b"aab", b"abc", b"abab", b"abcab", b"aabaab", b"abacaba", b"abacabad", b"abcdefghi"],
    };
    for &l in &lens {
        // single letter
        v.push(nd(format!("run-{}", l), vec![b'a'; l]));
        // a^(l-1) b and b a^(l-1)
        let mut x = vec![b'a'; l];
        x[l - 1] = b'b';
        v.push(nd(format!("a^k.b-{}", l), x));
        let mut x = vec![b'a'; l];
        x[0] = b'b';
        v.push(nd(format!("b.a^k-{}", l), x));
        for u in &us {
            if u.len() >= l && l > 3 {
                continue;
            }
            // u^k
            v.push(nd(format!("({})^k-{}", String::from_utf8_lossy(u), l), repeat_to(u, l)));
            if level >= 1 {
                // u^k v : break the period at the end
                let mut x = repeat_to(u, l);
                x[l - 1] = b'#';
                v.push(nd(format!("({})^k.v-{}", String::from_utf8_lossy(u), l), x));
                // v u^k : break at the start
                let mut x = repeat_to(u, l);
                x[0] = b'#';
                v.push(nd(format!("v.({})^k-{}", String::from_utf8_lossy(u), l), x));
            }
            if level >= 2 && l >= 8 {
                // break in the middle
                let mut x = repeat_to(u, l);
                x[l / 2] = b'#';
                v.push(nd(format!("({})^k.mid-{}", String::from_utf8_lossy(u), l), x));
            }
        }
        v.push(nd(format!("fib-{}", l), fib_word(l)));
        if level >= 1 {
            v.push(nd(format!("thue-{}", l), thue_morse(l)));
        }
        // bytes equal mod 64: the Two-Way byteset cannot tell them apart
        let twins = [0x01u8, 0x41, 0x81, 0xC1];
        v.push(nd(format!("mod64-{}", l), (0..l).map(|i| twins[(i * 7 + i / 3) % 4]).collect()));
        // common letters with two rare bytes at chosen indices
        let common = b"etaoin shrdlu";
        let base: Vec<u8> = (0..l).map(|i| common[(i * 5 + i / 7) % common.len()]).collect();
        let spots: Vec<(usize, usize)> = vec![
            (0, 1),
            (l - 1, 0),
            (l / 2, l / 2 + 1),
            (l - 1, l.saturating_sub(2)),
            (l.min(255) - 1, 0),
            (l.min(254), l.min(253).saturating_sub(0)),
        ];
        for (k, &(i1, i2)) in spots.iter().enumerate() {
            if i1 >= l || i2 >= l || i1 == i2 {
                continue;
            }
            if level == 0 && k > 1 {
                continue;
            }
            let mut x = base.clone();
            x[i1] = b'Z';
            x[i2] = b'q';
            v.push(nd(format!("rare@{},{}-{}", i1, i2, l), x));
        }
        if l > 256 {
            // exactly one rare byte right at / around the 254-offset cap of
            // pair selection
            for k in [253usize, 254, 255, 256, 257] {
                if k < l {
                    let mut x = base.clone();
                    x[k] = b'Z';
                    v.push(nd(format!("rare-only@{}-{}", k, l), x));
                    let mut x = vec![b'e'; l];
                    x[k] = 0x7F;
                    v.push(nd(format!("odd-byte@{}-{}", k, l), x));
                }
            }
            // rare bytes beyond index 254: the pair must come from elsewhere
            let mut x = base.clone();
            x[l - 1] = b'Z';
            x[l - 2] = b'q';
            v.push(nd(format!("rare-beyond-254-{}", l), x));
        }
        if level >= 1 && l >= 4 {
            // runs of one byte closed by another: these drive a shift-and-add
            // rolling hash through its carry chain (0x01.. fills the low bits,
            // 0xFF.. and 0x20.. the high ones)
            for (k, (c, d)) in [(0x01u8, 0xFFu8), (0x20, b'z'), (0xFF, 0x01), (0x7F, 0xFF)].iter().enumerate() {
                if level == 1 && (k + l) % 2 == 1 {
                    continue;
                }
                let mut x = vec![*c; l];
                x[l - 1] = *d;
                v.push(nd(format!("carry-{:02x}{:02x}-{}", c, d, l), x));
            }
            // the text-like needle with every byte's high bit set
            let hi: Vec<u8> = base.iter().map(|b| b | 0x80).collect();
            v.push(nd(format!("hibit-{}", l), hi));
        }
        // random over small alphabets and over all bytes
        let reps = if level >= 2 { 3 } else { 1 };
        for k in 0..reps {
            for alpha in [&b"ab"[..], &b"abc"[..], &b"abcd"[..], &[][..]] {
                let mut x = vec![0u8; l];
                rng.fill(&mut x, alpha);
                v.push(nd(format!("rand{}-a{}-{}", k, alpha.len(), l), x));
            }
        }
    }
    // needles just beyond the 255-byte window of pair selection whose
    // rarest byte lies *past* that window while the two rare bytes inside it
    // sit near its end (so the vector searchers' minimum haystack length
    // exceeds the needle length and the single-byte fallback prefilter with
    // its u8 offset is in play)
    let ls: &[usize] = match level {
        0 => &[260],
        1 => &[257, 260, 269, 270],
        _ => &[257, 258, 259, 260, 263, 268, 269, 270, 272, 300],
    };
    for &l in ls {
        let ps = [256usize, l - 2, l - 1];
        for (k, &p) in ps.iter().enumerate() {
            if level == 0 && k != 1 {
                continue;
            }
            for (fill, rare) in [(b'a', 0x7Fu8), (b'e', b'Z')] {
                let mut x = vec![fill; l];
                x[250] = b'q';
                x[253] = b'j';
                x[p] = rare;
                v.push(nd(format!("rare-past-cap-{}@{}-{:02x}", l, p, rare), x));
            }
        }
    }
    v
}

/// Where the first/last occurrence is planted.
pub fn plant_offsets(hlen: usize, nlen: usize, dense: bool) -> Vec<usize> {
    if nlen > hlen {
        return vec![];
    }
    let max = hlen - nlen;
    if dense || max <= 40 {
        return (0..=max).collect();
    }
    let mut v = vec![0, 1, 2, 7, 8, 15, 16, 17, 31, 32, 33, 63, 64, 65];
    for d in 0..=18 {
        v.push(max.saturating_sub(d));
    }
    v.push(max / 2);
    v.push(max / 3);
    v.retain(|&x| x <= max);
    v.sort();
    v.dedup();
    v
}

/// A byte that does not occur in `ndl`.
pub fn absent_byte(ndl: &[u8]) -> u8 {
    let mut seen = [false; 256];
    for &b in ndl {
        seen[b as usize] = true;
    }
    for c in [b'.', b'_', b'~', 0u8, 0xFE] {
        if !seen[c as usize] {
            return c;
        }
    }
    (0..=255u8).find(|&c| !seen[c as usize]).unwrap_or(0)
}

/// Background kinds, all derived from the needle.
pub const NBG: usize = 9;

/// Fill `buf[..hlen]` with background `kind`. None of these is guaranteed to
/// be free of occurrences - the oracle decides - but kinds 0..=2 never
/// contain the needle when the needle has at least 2 distinct... (no claim).
pub fn background(buf: &mut Vec<u8>, hlen: usize, ndl: &[u8], kind: usize, rng: &mut Rng) {
    buf.clear();
    let n = ndl.len();
    match kind {
        // a byte that is not in the needle
        0 => buf.resize(hlen, absent_byte(ndl)),
        // the needle repeated with one byte flipped in each copy (near matches)
        1 => {
            let mut k = 0usize;
            while buf.len() < hlen {
                if n == 0 {
                    buf.push(b'x');
                    continue;
                }
                let start = buf.len();
                buf.extend_from_slice(ndl);
                let flip = start + (k * 7 + 3) % n;
                buf[flip] ^= 0x20 | 1;
                k += 1;
            }
            buf.truncate(hlen);
        }
        // x . needle[1..] blocks: every block is the needle minus its first byte
        2 => {
            let x = absent_byte(ndl);
            while buf.len() < hlen {
                buf.push(x);
                if n > 1 {
                    buf.extend_from_slice(&ndl[1..]);
                }
            }
            buf.truncate(hlen);
        }
        // needle[..n-1] . x blocks: the needle minus its last byte
        3 => {
            let x = absent_byte(ndl);
            while buf.len() < hlen {
                if n > 1 {
                    buf.extend_from_slice(&ndl[..n - 1]);
                }
                buf.push(x);
            }
            buf.truncate(hlen);
        }
        // windows that agree with the needle on the last 32 bytes only
        // (Rabin-Karp's hash only sees those)
        4 => {
            let x = absent_byte(ndl);
            while buf.len() < hlen {
                if n > 32 {
                    for _ in 0..n - 32 {
                        buf.push(x);
                    }
                    buf.extend_from_slice(&ndl[n - 32..]);
                } else if n >= 2 {
                    // 2-byte style collisions: swap adjacent bytes a,b -> a+1,b-2
                    let mut w = ndl.to_vec();
                    w[n - 2] = w[n - 2].wrapping_add(1);
                    w[n - 1] = w[n - 1].wrapping_sub(2);
                    buf.extend_from_slice(&w);
                } else {
                    buf.push(x);
                }
            }
            buf.truncate(hlen);
        }
        // the needle's own bytes, shuffled: every position carries needle
        // bytes (dense false candidates for any pair)
        5 => {
            for i in 0..hlen {
                if n == 0 {
                    buf.push(b'y');
                } else {
                    buf.push(ndl[(i * 31 + (i / n) * 17 + rng.below(3) as usize) % n]);
                }
            }
        }
        // random concatenation of the needle's own factors: suffixes,
        // prefixes and inner pieces, now and then separated by a foreign byte
        // (rich partial-match structure for any needle length: this is what
        // drives Two-Way's shift/period memory through its corner cases)
        7 | 8 => {
            let x = absent_byte(ndl);
            while buf.len() < hlen {
                if n == 0 {
                    buf.push(b'v');
                    continue;
                }
                let (i, j) = match rng.below(6) {
                    // a suffix (often short: the last few bytes / last period)
                    0 | 1 => {
                        let cap = if rng.chance(1, 2) { 8.min(n as u64) } else { n as u64 };
                        let l = 1 + rng.below(cap) as usize;
                        (n - l, n)
                    }
                    // a prefix
                    2 => (0, 1 + rng.below(n as u64) as usize),
                    // the whole needle minus its first byte
                    3 => (1.min(n), n),
                    // an inner piece
                    _ => {
                        let i = rng.below(n as u64) as usize;
                        let j = i + 1 + rng.below((n - i) as u64) as usize;
                        (i, j)
                    }
                };
                buf.extend_from_slice(&ndl[i..j]);
                let sep = if kind == 7 { 5 } else { 2 };
                if rng.below(sep) == 0 {
                    // a byte outside the needle; kind 8 sometimes uses one that
                    // collides with a needle byte mod 64 instead
                    if kind == 8 && rng.chance(1, 2) {
                        buf.push(ndl[rng.below(n as u64) as usize] ^ 0x40);
                    } else {
                        buf.push(x);
                    }
                }
            }
            buf.truncate(hlen);
        }
        // the needle's period repeated, broken every n-1 bytes
        _ => {
            let x = absent_byte(ndl);
            for i in 0..hlen {
                if n > 1 && i % (n - 1) == n - 2 {
                    buf.push(x);
                } else if n > 0 {
                    buf.push(ndl[i % n]);
                } else {
                    buf.push(b'w');
                }
            }
        }
    }
}

/// Haystack lengths of interest for a needle of length `n`.
pub fn hay_lens(n: usize, level: u8) -> Vec<usize> {
    let mut v: Vec<usize> = Vec::new();
    // shorter than / equal to the needle
    if n > 0 {
        v.push(n - 1);
    }
    v.push(n);
    v.push(n + 1);
    // routing thresholds of the meta searcher and of the vector searchers:
    // 16 (rabinkarp::is_fast), 64 (one-shot), min_haystack_len in
    // [max(n, idx+16), n+15+16] for sse2 and +32 for avx2
    let mut base = vec![15usize, 16, 17, 31, 32, 33, 63, 64, 65];
    for d in [0usize, 1, 2, 14, 15, 16, 17, 18, 30, 31, 32, 33, 34, 46, 47, 48, 49, 63, 64, 65] {
        base.push(n + d);
    }
    if level >= 1 {
        base.extend_from_slice(&[96, 127, 128, 129, 200, 2 * n + 7, 3 * n + 70]);
    }
    if level >= 2 {
        base.extend_from_slice(&[255, 256, 257, 511, 4 * n + 129, 1000 + n]);
    }
    for b in base {
        v.push(b);
    }
    v.sort();
    v.dedup();
    if level == 0 {
        // Miri: keep a thin spread
        let keep = [n, n + 1, 15, 16, 17, n + 15, n + 16, n + 17, n + 31, n + 32, n + 33, 64, 65];
        v.retain(|x| keep.contains(x));
    }
    v
}

/// All strings over `alpha` of length exactly `len`, by index.
pub fn nth_string(alpha: &[u8], len: usize, mut idx: u64, out: &mut Vec<u8>) {
    out.clear();
    let k = alpha.len() as u64;
    for _ in 0..len {
        out.push(alpha[(idx % k) as usize]);
        idx /= k;
    }
}

pub fn count_strings(alpha: usize, len: usize) -> u64 {
    (alpha as u64).pow(len as u32)
}
