//! Drivers for the substring-search properties: C03, C04 (meta searcher),
//! C10 (heuristics), C11 (prefilters), C12 (building blocks), and the
//! resource judges used by C13 / C17.

#[allow(unused_imports)]
use crate::prelude::*;
use crate::case::{Api, Be, Fam};
use crate::exec::vector_backends;
use crate::gen;
use crate::mem::Place;
use crate::rankers::RANKER_NAMES;
use crate::runner::{Runner, Tier};

pub fn level(r: &Runner) -> u8 {
    match r.tier {
        Tier::Miri => 0,
        Tier::Quick => 1,
        Tier::Thorough => 2,
    }
}

const PLACES4: [Place; 4] = [Place::GuardR, Place::GuardL, Place::Heap, Place::Arena(1)];
const PLACES6: [Place; 6] =
    [Place::GuardR, Place::GuardL, Place::Heap, Place::Arena(1), Place::Arena(17), Place::Arena(32)];

/// Enumerate structured (haystack, needle) pairs and hand each to `f`
/// together with a running pair number (used to rotate placements etc.).
/// Work is split across shards per (needle, haystack length) unit.
pub fn structured_pairs(
    r: &mut Runner,
    max_needle: usize,
    f: &mut dyn FnMut(&mut Runner, &[u8], &[u8], u64),
) {
    let lvl = level(r);
    let mut grng = crate::util::Rng::new(r.seed ^ 0xABCD);
    let needles = gen::needle_families(lvl, &mut grng);
    let mut buf: Vec<u8> = Vec::new();
    let mut unit = 0u64;
    let mut pairno = 0u64;
    for ndl in &needles {
        let n = ndl.bytes.len();
        if n > max_needle {
            continue;
        }
        for hlen in gen::hay_lens(n, lvl) {
            unit += 1;
            if !r.mine(unit) {
                continue;
            }
            let mut urng = crate::util::Rng::new(r.seed ^ unit.wrapping_mul(0x9E37));
            let bgs: Vec<usize> = match lvl {
                0 => vec![(unit % gen::NBG as u64) as usize],
                1 => {
                    let mut v: Vec<usize> =
                        (0..7).filter(|k| (k + unit as usize) % 2 == 0 || *k == 0).collect();
                    v.extend_from_slice(&[7, 8, 7]);
                    v
                }
                _ => {
                    let mut v: Vec<usize> = (0..gen::NBG).collect();
                    v.extend_from_slice(&[7, 8, 7, 8, 7, 8]);
                    v
                }
            };
            for bg in bgs {
                gen::background(&mut buf, hlen, &ndl.bytes, bg, &mut urng);
                pairno += 1;
                f(r, &buf, &ndl.bytes, pairno);
                let mut offs = gen::plant_offsets(hlen, n, hlen <= 130 && lvl >= 2);
                if lvl == 0 {
                    // Miri: a handful of plants
                    let m = offs.len();
                    if m > 3 {
                        offs = vec![offs[0], offs[m / 2], offs[m - 1]];
                    }
                } else if lvl == 1 && offs.len() > 12 {
                    let m = offs.len();
                    let k = (unit as usize + bg) % 3;
                    offs = offs
                        .into_iter()
                        .enumerate()
                        .filter(|(i, _)| i % 3 == k || *i < 2 || *i + 3 > m)
                        .map(|x| x.1)
                        .collect();
                }
                let saved = buf.clone();
                for d in offs {
                    buf.copy_from_slice(&saved);
                    buf[d..d + n].copy_from_slice(&ndl.bytes);
                    pairno += 1;
                    f(r, &buf, &ndl.bytes, pairno);
                    if r.stop() {
                        return;
                    }
                }
            }
        }
    }
}

/// Long haystacks (around one page, two pages, 64 KiB; thorough: 1 MiB) with
/// short and medium needles: size thresholds that sit far above the lengths
/// `structured_pairs` reaches (page size, "big haystack" fast paths, the
/// prefilter's warm-up counters). One plant, two plants and no plant, over an
/// absent-byte filler, near-miss blocks, needle-factor concatenations and
/// plain text.
pub fn long_pairs(
    r: &mut Runner,
    f: &mut dyn FnMut(&mut Runner, &[u8], &[u8], u64),
) {
    let lvl = level(r);
    if lvl == 0 {
        return;
    }
    const TEXT: &[u8] = b"It was the best of times, it was the worst of times, it was the age of wisdom, it was the age of foolishness; ";
    let mut grng = crate::util::Rng::new(r.seed ^ 0xABCD);
    let needles = gen::needle_families(lvl, &mut grng);
    let hlens: &[usize] = if lvl >= 2 {
        &[4000, 4095, 4096, 4097, 4111, 8192, 8197, 16384, 65535, 65536, 65541, 1 << 20]
    } else {
        &[4095, 4096, 4097, 8197, 65541]
    };
    let mut buf: Vec<u8> = Vec::new();
    let mut unit = 500_000u64;
    let mut pairno = 0u64;
    for (ni, ndl) in needles.iter().enumerate() {
        let n = ndl.bytes.len();
        if n == 0 || n > 300 || (lvl == 1 && n > 40 && ni % 3 != 0) {
            continue;
        }
        for (hi, &hlen) in hlens.iter().enumerate() {
            unit += 1;
            if !r.mine(unit) {
                continue;
            }
            if hlen >= 1 << 20 && ni % 8 != 0 {
                continue;
            }
            let mut urng = crate::util::Rng::new(r.seed ^ unit.wrapping_mul(0x9E37));
            let nbg = if lvl >= 2 { 4 } else { 2 };
            for b in 0..nbg {
                let bg = [0usize, 7, 2, 100][(b + ni + hi) % 4];
                if bg == 100 {
                    buf.clear();
                    while buf.len() < hlen {
                        let take = TEXT.len().min(hlen - buf.len());
                        buf.extend_from_slice(&TEXT[..take]);
                    }
                } else {
                    gen::background(&mut buf, hlen, &ndl.bytes, bg, &mut urng);
                }
                pairno += 1;
                f(r, &buf, &ndl.bytes, pairno);
                let saved = buf.clone();
                let last = hlen - n;
                let singles = [0usize, 1, 15, hlen / 2 + 3, 4096usize.min(last), last - 1, last];
                let k = (ni + hi + b) % singles.len();
                for (j, &d) in singles.iter().enumerate() {
                    if lvl == 1 && j != k && j != (k + 3) % singles.len() {
                        continue;
                    }
                    let d = d.min(last);
                    buf.copy_from_slice(&saved);
                    buf[d..d + n].copy_from_slice(&ndl.bytes);
                    pairno += 1;
                    f(r, &buf, &ndl.bytes, pairno);
                    // a second plant far away: leftmost / rightmost matter
                    let d2 = (d + hlen / 3 + 7) % (last + 1);
                    buf[d2..d2 + n].copy_from_slice(&ndl.bytes);
                    pairno += 1;
                    f(r, &buf, &ndl.bytes, pairno);
                }
                if r.stop() {
                    return;
                }
            }
        }
    }
    // residue sweep: a few needles planted at every offset of a 600-byte
    // window in the middle of a two-page haystack, a decoy near each end
    let sweep_needles: [&[u8]; 4] = [b"ab", b"needle-x", b"\xC3\xA9t\xC3\xA9 \xFFq", b"0123456789abcdefghijklmnopqrstuvwxyzABCDEFGHIJ"];
    let hlen = 8192 + 37;
    for (si, ndl) in sweep_needles.iter().enumerate() {
        let n = ndl.len();
        let step = if lvl >= 2 { 1 } else { 1 + si % 2 };
        let mut d = hlen / 2 - 300;
        while d < hlen / 2 + 300 {
            unit += 1;
            if r.mine(unit) {
                buf.clear();
                buf.resize(hlen, b'.');
                buf[d..d + n].copy_from_slice(ndl);
                pairno += 1;
                f(r, &buf, ndl, pairno);
                // decoys: an occurrence near each end (both directions)
                buf[hlen - n - 2..hlen - 2].copy_from_slice(ndl);
                buf[2..2 + n].copy_from_slice(ndl);
                buf[d - 1] = ndl[n - 1];
                pairno += 1;
                f(r, &buf, ndl, pairno);
            }
            d += step;
        }
    }
}

/// Exhaustive pairs over a small alphabet: every needle of length <= nmax
/// against every haystack of length <= hmax; optionally embedded in a
/// background so that the vector / Two-Way routes are reached.
pub fn exhaustive_pairs(
    r: &mut Runner,
    alpha: &[u8],
    nmax: usize,
    hmax: usize,
    embed: &[(usize, usize)], // (background length, offset) ; (0,0) = plain
    f: &mut dyn FnMut(&mut Runner, &[u8], &[u8], u64),
) {
    let mut ndl = Vec::new();
    let mut hay = Vec::new();
    let mut emb = Vec::new();
    let mut unit = 0u64;
    let mut pairno = 0u64;
    for hl in 0..=hmax {
        for hi in 0..gen::count_strings(alpha.len(), hl) {
            unit += 1;
            if !r.mine(unit) {
                continue;
            }
            gen::nth_string(alpha, hl, hi, &mut hay);
            for nl in 0..=nmax {
                for ni in 0..gen::count_strings(alpha.len(), nl) {
                    gen::nth_string(alpha, nl, ni, &mut ndl);
                    for &(bl, off) in embed {
                        pairno += 1;
                        if bl == 0 {
                            f(r, &hay, &ndl, pairno);
                        } else {
                            if off + hl > bl {
                                continue;
                            }
                            emb.clear();
                            emb.resize(bl, b'#');
                            emb[off..off + hl].copy_from_slice(&hay);
                            f(r, &emb, &ndl, pairno);
                        }
                    }
                }
            }
            if r.stop() {
                return;
            }
        }
    }
}

/// Exhaustive small strings inflated by a letter -> word morphism, so that
/// every period / critical-position shape of the small needles reappears in
/// needles longer than 32 bytes (the Two-Way route on every backend) with the
/// haystack's partial-match structure intact. Needles over `nalpha`,
/// haystacks over `halpha` (a superset: the extra letter is a byte outside
/// the needle).
pub fn inflated_pairs(
    r: &mut Runner,
    nrange: (usize, usize),
    hmax: usize,
    f: &mut dyn FnMut(&mut Runner, &[u8], &[u8], u64),
) {
    let nalpha = b"ab";
    let halpha = b"abc";
    // short words for 5..8-letter needles, long words for 3..4-letter ones:
    // either way the inflated needle is longer than 32 bytes
    let long = nrange.1 <= 4;
    let wordsets: [[&[u8]; 3]; 4] = if long {
        [
            [b"aaaaaaaaaaa", b"bbbbbbbbbbb", b"ccccccccccc"],
            [b"abcdefghijkl", b"mnopqrstuvwx", b"ABCDEFGHIJKL"],
            [b"ababababab#", b"abababababa", b"\x01\x41\x81\xc1\x01\x41\x81\xc1\x01\x41\x81"],
            [b"xyxyxyxyxyxy", b"xyxyxyxyxyxz", b"qqqqqqqqqqqq"],
        ]
    } else {
        [
            [b"aaaaa", b"bbbbb", b"ccccc"],
            [b"abcde", b"fghij", b"klmno"],
            [b"abab#", b"ababa", b"\x01\x41\x81\xc1\x01"],
            [b"xyxyxy", b"xyxyxz", b"qqqqqq"],
        ]
    };
    let mut small_n = Vec::new();
    let mut small_h = Vec::new();
    let mut ndl = Vec::new();
    let mut hay = Vec::new();
    let mut unit = 5_000_000u64;
    let mut pairno = 0u64;
    for hl in 0..=hmax {
        for hi in 0..gen::count_strings(halpha.len(), hl) {
            unit += 1;
            if !r.mine(unit) {
                continue;
            }
            gen::nth_string(halpha, hl, hi, &mut small_h);
            let ws = &wordsets[(unit % 4) as usize];
            hay.clear();
            for &c in &small_h {
                hay.extend_from_slice(ws[(c - b'a') as usize]);
            }
            for nl in nrange.0..=nrange.1 {
                if nl > hl + 1 {
                    continue;
                }
                for ni in 0..gen::count_strings(nalpha.len(), nl) {
                    gen::nth_string(nalpha, nl, ni, &mut small_n);
                    ndl.clear();
                    for &c in &small_n {
                        ndl.extend_from_slice(ws[(c - b'a') as usize]);
                    }
                    pairno += 1;
                    f(r, &hay, &ndl, pairno);
                }
            }
            if r.stop() {
                return;
            }
        }
    }
}

fn nontrivial_pair(hay: &[u8], ndl: &[u8]) -> bool {
    !hay.is_empty() && !ndl.is_empty()
}

/// C03 / C04
pub fn meta_search(r: &mut Runner, rev: bool) {
    let lvl = level(r);
    let forms: &[u8] = if lvl >= 2 { &[0, 1, 2, 3] } else { &[0, 1, 2] };
    let forms: Vec<u8> = forms.to_vec();
    let mut run_pair = |r: &mut Runner, hay: &[u8], ndl: &[u8], k: u64| {
        let hp = PLACES6[(k % 6) as usize];
        let np = PLACES4[((k / 6) % 4) as usize];
        for &form in &forms {
            let api = Api::new(Fam::Sub, Be::Top, 0, rev, form);
            r.run0(api, hay, ndl, hp, np, nontrivial_pair(hay, ndl));
        }
        let m = r.ctx.digest != u64::MAX && r.last_ok;
        let _ = m;
    };
    // (1) exhaustive binary strings
    let (nmax, hmax) = match lvl {
        0 => (3, 5),
        1 => (5, 12),
        _ => (6, 14),
    };
    exhaustive_pairs(r, b"ab", nmax, hmax, &[(0, 0)], &mut run_pair);
    if lvl >= 1 {
        let (nmax, hmax) = if lvl == 1 { (4, 9) } else { (5, 10) };
        exhaustive_pairs(
            r,
            b"ab",
            nmax,
            hmax,
            &[(64, 0), (64, 7), (80, 70), (100, 45), (41, 31)],
            &mut run_pair,
        );
        let (nmax, hmax) = if lvl == 1 { (3, 7) } else { (4, 8) };
        exhaustive_pairs(r, b"abc", nmax, hmax, &[(0, 0), (72, 33)], &mut run_pair);
    }
    // (1b) the same small shapes inflated to needles of 30..48 bytes
    if lvl >= 1 {
        let (nr, hmax) = if lvl == 1 { ((5, 7), 8) } else { ((5, 8), 10) };
        inflated_pairs(r, nr, hmax, &mut run_pair);
        inflated_pairs(r, (3, 4), if lvl == 1 { 9 } else { 11 }, &mut run_pair);
    }
    // (2) structured
    let maxn = if lvl >= 2 { 5000 } else { 700 };
    structured_pairs(r, maxn, &mut run_pair);
    // (2b) long haystacks
    long_pairs(r, &mut run_pair);
    // (3) random
    random_pairs(r, rev, &mut run_pair);
    if !rev {
        prefilter_history(r, &mut |r, hay, ndl, k| {
            let api = Api::new(Fam::Sub, Be::Top, 0, false, 1);
            r.run0(api, hay, ndl, Place::Heap, PLACES4[(k % 4) as usize], true);
        });
    }
}

/// Seeded random pairs over alphabets of size 1..4 and 256, with the needle
/// frequently cut out of the haystack so that it occurs.
pub fn random_pairs(
    r: &mut Runner,
    _rev: bool,
    f: &mut dyn FnMut(&mut Runner, &[u8], &[u8], u64),
) {
    let count = match r.tier {
        Tier::Miri => 40,
        Tier::Quick => r.scaled(60_000),
        Tier::Thorough => r.scaled(1_500_000),
    } / r.nshards.max(1);
    let alphas: [&[u8]; 5] = [b"a", b"ab", b"abc", b"abcd", &[]];
    let mut hay = Vec::new();
    let mut ndl = Vec::new();
    for k in 0..count {
        let alpha = alphas[r.rng.below(5) as usize];
        let hl = match r.rng.below(4) {
            0 => r.rng.range(0, 20),
            1 => r.rng.range(0, 80),
            2 => r.rng.range(40, 200),
            _ => r.rng.range(0, 700),
        };
        hay.resize(hl, 0);
        let mut rr = r.rng.fork(k);
        rr.fill(&mut hay, alpha);
        let nl = match r.rng.below(4) {
            0 => r.rng.range(0, 4),
            1 => r.rng.range(2, 33),
            2 => r.rng.range(30, 70),
            _ => r.rng.range(0, 300),
        };
        ndl.clear();
        if r.rng.chance(3, 4) && nl <= hl {
            let at = r.rng.range(0, hl - nl);
            ndl.extend_from_slice(&hay[at..at + nl]);
            if r.rng.chance(1, 4) && nl > 0 {
                // near miss: flip one byte of the needle
                let j = r.rng.range(0, nl - 1);
                ndl[j] ^= 1;
            }
        } else {
            ndl.resize(nl, 0);
            rr.fill(&mut ndl, alpha);
        }
        f(r, &hay, &ndl, k);
        if r.stop() {
            return;
        }
    }
}

/// Needles > 32 bytes whose two rarest bytes sit an odd distance apart, with
/// haystacks that (A) keep the adaptive prefilter effective through a long
/// candidate-free prefix followed by dense false candidates and then real
/// matches, and (B) make it give up early (dense false candidates from byte 0)
/// before the real matches.
pub fn prefilter_history(
    r: &mut Runner,
    f: &mut dyn FnMut(&mut Runner, &[u8], &[u8], u64),
) {
    let lvl = level(r);
    let nlens: &[usize] = match lvl {
        0 => &[34],
        1 => &[33, 40, 70],
        _ => &[33, 34, 40, 64, 70, 130, 300],
    };
    let mut k = 0u64;
    for &n in nlens {
        for &(i1, i2) in &[(3usize, 4usize), (0, 1), (n - 2, n - 1), (10, 21)] {
            k += 1;
            if !r.mine(k) {
                continue;
            }
            let common = b"etaoin shrdlu";
            let mut ndl: Vec<u8> = (0..n).map(|i| common[(i * 5 + i / 7) % common.len()]).collect();
            ndl[i1] = b'Z';
            ndl[i2] = b'q';
            let sizes: &[usize] = match lvl {
                0 => &[600],
                1 => &[2_000, 40_000],
                _ => &[2_000, 40_000, 400_000],
            };
            for &total in sizes {
                for kind in 0..3 {
                    let mut hay: Vec<u8> = Vec::with_capacity(total + 4 * n);
                    match kind {
                        // A: candidate-free prefix, then dense false candidates
                        0 => {
                            while hay.len() < total * 3 / 4 {
                                hay.push(common[hay.len() % common.len()]);
                            }
                            while hay.len() < total {
                                hay.push(if hay.len() % 2 == 0 { b'Z' } else { b'q' });
                            }
                        }
                        // B: dense false candidates from byte 0
                        1 => {
                            while hay.len() < total {
                                hay.push(if hay.len() % 2 == 0 { b'Z' } else { b'q' });
                            }
                        }
                        // C: near matches (needle with one flipped byte) back to back
                        _ => {
                            let mut j = 0usize;
                            while hay.len() < total {
                                let s = hay.len();
                                hay.extend_from_slice(&ndl);
                                let mut fl = (j * 11 + 5) % n;
                                if fl == i1 || fl == i2 {
                                    fl = (fl + 2) % n;
                                }
                                hay[s + fl] = b'#';
                                j += 1;
                            }
                        }
                    }
                    // real matches at the end (several, some adjacent)
                    let nmatch = if kind == 1 { 3 } else { 2 };
                    for m in 0..nmatch {
                        hay.extend_from_slice(&ndl);
                        if m % 2 == 0 {
                            hay.extend_from_slice(b"ZqZq..");
                        }
                    }
                    f(r, &hay, &ndl, k + kind as u64);
                    // and without any real match
                    hay.truncate(hay.len() - nmatch * n - (nmatch + 1) / 2 * 6);
                    f(r, &hay, &ndl, k + 7 + kind as u64);
                    if r.stop() {
                        return;
                    }
                }
            }
        }
    }
}

/// C10: rankers x prefilter settings never change results.
pub fn heuristics(r: &mut Runner) {
    let lvl = level(r);
    let nrank = RANKER_NAMES.len() as u64;
    let per_pair = if lvl >= 2 { 6 } else { 3 };
    let mut run_pair = |r: &mut Runner, hay: &[u8], ndl: &[u8], k: u64| {
        let hp = PLACES4[(k % 4) as usize];
        // default ranker, both prefilter settings
        r.run0(Api::new(Fam::Sub, Be::Top, 0, false, 2), hay, ndl, hp, Place::Heap, nontrivial_pair(hay, ndl));
        r.run0(Api::new(Fam::Sub, Be::Top, 0, false, 3), hay, ndl, hp, Place::Heap, nontrivial_pair(hay, ndl));
        for j in 0..per_pair {
            let rid = (k.wrapping_mul(7) + j * 5) % nrank;
            let pf = (k + j) % 2;
            let a = [rid, r.seed ^ k, pf, 0];
            r.run(Api::new(Fam::Sub, Be::Top, 0, false, 4), hay, ndl, a, &[], hp, Place::Heap, nontrivial_pair(hay, ndl));
            if j == 0 && hay.len() <= 4096 {
                // collected find_iter under the same configuration
                r.run(Api::new(Fam::SubIter, Be::Top, 0, false, 3), hay, ndl, a, &[], hp, Place::Heap, nontrivial_pair(hay, ndl));
            }
        }
    };
    let (nmax, hmax) = match lvl {
        0 => (3, 4),
        1 => (4, 9),
        _ => (5, 11),
    };
    exhaustive_pairs(r, b"ab", nmax, hmax, &[(0, 0), (70, 20)], &mut run_pair);
    if lvl >= 1 {
        let (nr, hmax) = if lvl == 1 { ((6, 7), 8) } else { ((5, 8), 9) };
        inflated_pairs(r, nr, hmax, &mut run_pair);
        inflated_pairs(r, (3, 4), if lvl == 1 { 8 } else { 10 }, &mut run_pair);
    }
    structured_pairs(r, if lvl >= 2 { 1100 } else { 320 }, &mut run_pair);
    // every ranker x both settings on the prefilter-history haystacks
    prefilter_history(r, &mut |r, hay, ndl, k| {
        for rid in 0..nrank {
            for pf in 0..2 {
                if lvl < 2 && (rid + pf + k) % 2 == 0 {
                    continue;
                }
                let a = [rid, r.seed ^ k, pf, 0];
                r.run(Api::new(Fam::Sub, Be::Top, 0, false, 4), hay, ndl, a, &[], Place::Heap, Place::Heap, true);
                if hay.len() <= 50_000 {
                    r.run(Api::new(Fam::SubIter, Be::Top, 0, false, 3), hay, ndl, a, &[], Place::Heap, Place::Heap, true);
                }
            }
        }
    });
}

/// Index pairs to try for a needle of length n.
pub fn index_pairs(n: usize, r: &mut Runner, many: bool) -> Vec<(u64, u64)> {
    let mut v: Vec<(u64, u64)> = vec![(256, 0)]; // Finder::new
    if n < 2 {
        return v;
    }
    let cap = n.min(256);
    if n <= 8 || (many && n <= 14) {
        for a in 0..cap {
            for b in 0..cap {
                if a != b {
                    v.push((a as u64, b as u64));
                }
            }
        }
        return v;
    }
    let mut fixed = vec![
        (0, 1),
        (1, 0),
        (0, cap - 1),
        (cap - 1, 0),
        (cap - 2, cap - 1),
        (cap - 1, cap - 2),
        (cap / 2, cap / 2 + 1),
        (cap.min(255) - 1, cap.min(255) - 2),
    ];
    if n >= 256 {
        fixed.push((254, 253));
        fixed.push((0, 254));
        fixed.push((254, 0));
        fixed.push((255, 0));
        fixed.push((3, 255));
    }
    for (a, b) in fixed {
        if a != b && a < n && b < n {
            v.push((a as u64, b as u64));
        }
    }
    let extra = if many { 18 } else { 5 };
    for _ in 0..extra {
        let a = r.rng.below(cap as u64);
        let b = r.rng.below(cap as u64);
        if a != b {
            v.push((a, b));
        }
    }
    v.sort();
    v.dedup();
    v
}

/// C11: prefilters never skip a match. Also drives Block form 4 (packed pair
/// `find`) for C12 when `blocks` is set.
pub fn prefilters(r: &mut Runner, blocks: bool) {
    let lvl = level(r);
    let mut grng = crate::util::Rng::new(r.seed ^ 0x5151);
    let needles = gen::needle_families(lvl, &mut grng);
    let mut bes = vec![Be::All];
    bes.extend(vector_backends());
    if blocks {
        bes.retain(|b| *b != Be::All);
    }
    let mut buf: Vec<u8> = Vec::new();
    let mut unit = 0u64;
    for ndl in &needles {
        let n = ndl.bytes.len();
        if n < 2 || n > if lvl >= 2 { 1000 } else { 300 } {
            continue;
        }
        unit += 1;
        if !r.mine(unit) {
            continue;
        }
        let pairs = index_pairs(n, r, lvl >= 2);
        let mut urng = crate::util::Rng::new(r.seed ^ unit.wrapping_mul(0x77));
        for (pi, &(a0, a1)) in pairs.iter().enumerate() {
            let maxidx = if a0 >= 256 { 0 } else { a0.max(a1) as usize };
            // haystack lengths relative to the largest possible minimum
            let base = n.max(maxidx + 16);
            let mut hls = vec![base, base + 1, base + 15, base + 16, base + 17, base + 32, base + 33, base + 67];
            if lvl >= 2 {
                hls.extend_from_slice(&[base + 2, base + 31, base + 48, base + 64, base + 99, 2 * base + 40]);
            }
            if lvl == 0 {
                hls = vec![base, base + 17, base + 33];
            }
            for (hk, &hl) in hls.iter().enumerate() {
                // fillers: needle-derived backgrounds plus byte1-only /
                // byte2-only / alternating
                let (b1, b2) = if a0 >= 256 {
                    (ndl.bytes[0], ndl.bytes[n - 1])
                } else {
                    (ndl.bytes[a0 as usize], ndl.bytes[a1 as usize])
                };
                let nfill = if lvl >= 2 { 6 } else if lvl == 1 { 3 } else { 1 };
                for fk in 0..nfill {
                    let kind = (fk + pi + hk) % 6;
                    match kind {
                        0 => gen::background(&mut buf, hl, &ndl.bytes, 0, &mut urng),
                        1 => gen::background(&mut buf, hl, &ndl.bytes, 5, &mut urng),
                        2 => {
                            buf.clear();
                            buf.resize(hl, b1);
                        }
                        3 => {
                            buf.clear();
                            buf.resize(hl, b2);
                        }
                        4 => {
                            buf.clear();
                            for i in 0..hl {
                                buf.push(if i % 2 == 0 { b1 } else { b2 });
                            }
                        }
                        _ => gen::background(&mut buf, hl, &ndl.bytes, 1, &mut urng),
                    }
                    let saved = buf.clone();
                    let mut offs = gen::plant_offsets(hl, n, lvl >= 2 && hl <= 120);
                    if lvl <= 1 && offs.len() > 8 {
                        let m = offs.len();
                        offs = vec![offs[0], offs[1], offs[m / 2], offs[m - 3], offs[m - 2], offs[m - 1]];
                    }
                    let mut plants: Vec<Option<usize>> = vec![None];
                    plants.extend(offs.into_iter().map(Some));
                    for d in plants {
                        buf.copy_from_slice(&saved);
                        if let Some(d) = d {
                            buf[d..d + n].copy_from_slice(&ndl.bytes);
                        }
                        for &be in &bes {
                            let hp = PLACES4[(pi + hk) % 4];
                            let (fam, form) = if blocks { (Fam::Block, 4) } else { (Fam::Pre, 0) };
                            r.run(
                                Api::new(fam, be, 0, false, form),
                                &buf,
                                &ndl.bytes,
                                [a0, a1, 0, 0],
                                &[],
                                hp,
                                PLACES4[(pi + hk + 1) % 4],
                                true,
                            );
                        }
                        if r.stop() {
                            return;
                        }
                    }
                }
            }
        }
    }
}

/// C12: building blocks.
pub fn blocks(r: &mut Runner) {
    let lvl = level(r);
    let mut run_pair = |r: &mut Runner, hay: &[u8], ndl: &[u8], k: u64| {
        let hp = PLACES4[(k % 4) as usize];
        let np = PLACES4[((k / 4) % 4) as usize];
        let nt = nontrivial_pair(hay, ndl);
        for rev in [false, true] {
            r.run0(Api::new(Fam::Block, Be::All, 0, rev, 0), hay, ndl, hp, np, nt);
            // Rabin-Karp is quadratic by design: keep it to modest sizes
            if hay.len() * ndl.len().max(1) <= 1 << 18 {
                r.run0(Api::new(Fam::Block, Be::All, 0, rev, 1), hay, ndl, hp, np, nt);
                if k % 3 == 0 {
                    r.run0(Api::new(Fam::Block, Be::All, 0, rev, 2), hay, ndl, hp, np, nt);
                }
            }
        }
        #[cfg(feature = "alloc")]
        if ndl.len() <= 17 {
            r.run0(Api::new(Fam::Block, Be::All, 0, false, 3), hay, ndl, hp, np, nt);
        }
        if ndl.len() <= 40 || k % 5 == 0 {
            for be in vector_backends() {
                r.run(Api::new(Fam::Block, be, 0, false, 4), hay, ndl, [256, 0, 0, 0], &[], hp, np, nt);
            }
        }
    };
    let (nmax, hmax) = match lvl {
        0 => (3, 5),
        1 => (6, 13),
        _ => (8, 16),
    };
    exhaustive_pairs(r, b"ab", nmax, hmax, &[(0, 0)], &mut run_pair);
    if lvl >= 1 {
        let (nmax, hmax) = if lvl == 1 { (4, 8) } else { (5, 10) };
        exhaustive_pairs(r, b"abc", nmax, hmax, &[(0, 0)], &mut run_pair);
        // embedded just above the vector searchers' minimum length
        let (nmax, hmax) = if lvl == 1 { (4, 8) } else { (5, 10) };
        exhaustive_pairs(r, b"ab", nmax, hmax, &[(24, 0), (24, 7), (40, 25), (49, 33)], &mut run_pair);
    }
    if lvl >= 1 {
        let (nr, hmax) = if lvl == 1 { ((5, 7), 8) } else { ((5, 8), 10) };
        inflated_pairs(r, nr, hmax, &mut run_pair);
        inflated_pairs(r, (3, 4), if lvl == 1 { 9 } else { 11 }, &mut run_pair);
    }
    structured_pairs(r, if lvl >= 2 { 5000 } else { 700 }, &mut run_pair);
    random_pairs(r, false, &mut run_pair);
    // Shift-Or constructor domain: every needle length 0..=20
    #[cfg(feature = "alloc")]
    for n in 0..=20usize {
        let ndl: Vec<u8> = (0..n).map(|i| b'a' + (i % 3) as u8).collect();
        let mut hay = vec![b'a'; 30];
        hay.extend_from_slice(&ndl);
        r.run0(Api::new(Fam::Block, Be::All, 0, false, 3), &hay, &ndl, Place::GuardR, Place::GuardR, true);
    }
    // packed pair with explicit pairs
    prefilters(r, true);
}

// ---------------------------------------------------------------------------
// resource judges (C13, C17)

/// Steps per byte allowed when a vector prefilter/searcher is in use
/// (default dispatch, forced SSE2, +avx2, wasm simd128): calibrated worst
/// legitimate value 9.03, see DESIGN.md section 5 (C13).
pub const K_STEPS: u64 = 24;
/// Steps per byte allowed when the *portable* packed-pair prefilter is in use
/// (forced fallback, targets without a vector backend). One call of it
/// legitimately costs a few counted steps per occurrence of the first pair
/// byte that lies in front of its needle offset (<= 254 of them), the Two-Way
/// loop may call it once per haystack byte, and nothing in the *property*
/// obliges the adaptive state to ever switch it off: the worst legitimate
/// constant is therefore of the order of 4 * 254. (Measured: 24.1 on the
/// unchanged tree with offset 200 and a half-length candidate-free prefix; 223
/// on a tree whose prefilter never goes inert - still linear.) In this
/// configuration the bound only catches gross blow-ups; the tight bound is
/// enforced in the configurations above, which every seeded quadratic change
/// also affects.
pub const K_STEPS_PORTABLE: u64 = 1024;
pub const C_STEPS: u64 = 4096;

pub fn k_steps() -> u64 {
    if crate::exec::vector_backends().is_empty() {
        K_STEPS_PORTABLE
    } else {
        K_STEPS
    }
}

/// C13: was the work of the last `run` within K*(n+m)+C?
pub fn judge_steps(r: &mut Runner, hlen: usize, nlen: usize) -> bool {
    if !crate::hooks::ENABLED || r.ctx.skipped {
        return true;
    }
    let k = k_steps();
    let bound = k * (hlen as u64 + nlen as u64) + C_STEPS;
    let steps = r.ctx.steps;
    let ratio_milli = steps.saturating_mul(1000) / (hlen as u64 + nlen as u64).max(1);
    if hlen + nlen >= 4096 {
        r.rep.set_max("max_ratio_milli", ratio_milli);
    }
    r.rep.set_max("max_steps", steps);
    if steps > bound {
        unsafe {
            let l = &*core::ptr::addr_of!(crate::report::LAST);
            let mk = |p: (*const u8, usize)| -> &[u8] {
                if p.1 == 0 { &[] } else { core::slice::from_raw_parts(p.0, p.1) }
            };
            let case = crate::case::Case {
                api: l.api.unwrap(),
                hay: mk(l.hay),
                ndl: mk(l.ndl),
                a: l.a,
                ops: mk(l.ops),
            };
            let recipe = r.recipe.clone();
            r.rep.fail(
                "C13",
                "steps",
                &case,
                l.hplace,
                l.nplace,
                &format!(
                    "{} elementary steps for haystack {} + needle {} bytes: exceeds {}*(n+m)+{} = {} (ratio {:.2})",
                    steps,
                    hlen,
                    nlen,
                    k,
                    C_STEPS,
                    bound,
                    steps as f64 / (hlen + nlen).max(1) as f64
                ),
                recipe.as_deref(),
            );
        }
        return false;
    }
    true
}

/// C17: did the monitored windows of the last `run` allocate?
pub fn judge_allocs(r: &mut Runner) -> bool {
    if r.ctx.allocs == 0 {
        return true;
    }
    unsafe {
        let l = &*core::ptr::addr_of!(crate::report::LAST);
        let mk = |p: (*const u8, usize)| -> &[u8] {
            if p.1 == 0 { &[] } else { core::slice::from_raw_parts(p.0, p.1) }
        };
        let case = crate::case::Case {
            api: l.api.unwrap(),
            hay: mk(l.hay),
            ndl: mk(l.ndl),
            a: l.a,
            ops: mk(l.ops),
        };
        let n = r.ctx.allocs;
        r.rep.fail(
            "C17",
            "alloc",
            &case,
            l.hplace,
            l.nplace,
            &format!("{} heap allocator calls inside the monitored search window", n),
            None,
        );
    }
    false
}
