//! The case language: one `Case` = one monitored interaction with memchr,
//! serialisable (for replay files) and hashable (for distinct counting).

#[allow(unused_imports)]
use crate::prelude::*;
use crate::mem::Place;
use crate::util::{hash_bytes, hash_u64, hex, json_escape, json_get, unhex};

#[derive(Clone, Copy, PartialEq, Eq, Debug)]
pub enum Fam {
    /// find/rfind of 1-3 bytes. form: 0 slice, 1 raw, 2 raw start==end
    /// (a[0] = offset), 3 raw start>end (a[0] = start off, a[1] = end off)
    Byte,
    /// count of one byte. form: 0 count(slice), 1 count_raw, 2 iter().count()
    Count,
    /// iterator history. ops: n next, b next_back, k count-on-clone,
    /// c continue-on-clone
    IterHist,
    /// substring search. form: 0 oneshot, 1 Finder::new, 2 builder
    /// Prefilter::None, 3 builder Prefilter::Auto, 4 builder with ranker
    /// (a[0] ranker id, a[1] ranker seed, a[2] 0 = None / 1 = Auto)
    Sub,
    /// substring iterator. form: 0 top-level, 1 via Finder, 2 via Finder then
    /// into_owned before the first next. ops: n next, c clone, o into_owned
    SubIter,
    /// packed-pair find_prefilter. a[0], a[1] = indices, a[0] = 256 => new()
    Pre,
    /// building blocks. form: 0 twoway, 1 rabinkarp, 2 rabinkarp raw,
    /// 3 shiftor, 4 packedpair find (a[0], a[1] = indices / 256)
    Block,
    /// packed pair documented panic. form: 0 find, 1 find_prefilter
    PPanic,
    /// safe call with a needle that differs from the construction needle;
    /// ndl = construction needle, ops = search needle. form as Block.
    /// Only faults count.
    Mismatch,
    /// form: 0 is_equal, 1 is_prefix, 2 is_suffix, 3 is_equal_raw
    /// (+4: both operands are windows of hay: y = hay[a0..a0+a1], x = hay[a2..a2+a3])
    EqFn,
    /// form: 0 Pair::new, 1 with_ranker (a[0] id, a[1] seed),
    /// 2 with_indices (a[0], a[1]), 3 vector finder pair()/min_haystack_len
    PairSel,
    /// finder reuse. hay = concatenated haystacks, ops = records of
    /// [op u8, len u32 le]
    History,
}

impl Fam {
    pub const ALL: &'static [(Fam, &'static str)] = &[
        (Fam::Byte, "byte"),
        (Fam::Count, "count"),
        (Fam::IterHist, "iterhist"),
        (Fam::Sub, "sub"),
        (Fam::SubIter, "subiter"),
        (Fam::Pre, "pre"),
        (Fam::Block, "block"),
        (Fam::PPanic, "ppanic"),
        (Fam::Mismatch, "mismatch"),
        (Fam::EqFn, "eqfn"),
        (Fam::PairSel, "pairsel"),
        (Fam::History, "history"),
    ];
    pub fn name(self) -> &'static str {
        Fam::ALL.iter().find(|x| x.0 == self).unwrap().1
    }
    pub fn parse(s: &str) -> Option<Fam> {
        Fam::ALL.iter().find(|x| x.1 == s).map(|x| x.0)
    }
}

#[derive(Clone, Copy, PartialEq, Eq, Debug)]
pub enum Be {
    /// top-level functions / memmem (whatever the dispatcher selects)
    Top,
    /// arch::all
    All,
    Sse2,
    Avx2,
    Neon,
    Simd128,
}

impl Be {
    pub const ALL: &'static [(Be, &'static str)] = &[
        (Be::Top, "top"),
        (Be::All, "all"),
        (Be::Sse2, "sse2"),
        (Be::Avx2, "avx2"),
        (Be::Neon, "neon"),
        (Be::Simd128, "simd128"),
    ];
    pub fn name(self) -> &'static str {
        Be::ALL.iter().find(|x| x.0 == self).unwrap().1
    }
    pub fn parse(s: &str) -> Option<Be> {
        Be::ALL.iter().find(|x| x.1 == s).map(|x| x.0)
    }
    /// Vector width (bytes) of the widest vector the backend uses.
    pub fn vbytes(self) -> usize {
        match self {
            Be::Avx2 => 32,
            Be::Top => 32,
            Be::All => core::mem::size_of::<usize>(),
            _ => 16,
        }
    }
}

#[derive(Clone, Copy, PartialEq, Eq, Debug)]
pub struct Api {
    pub fam: Fam,
    pub be: Be,
    /// number of needle bytes for byte searches (1..=3)
    pub n: u8,
    pub rev: bool,
    pub form: u8,
}

impl Api {
    pub fn new(fam: Fam, be: Be, n: u8, rev: bool, form: u8) -> Api {
        Api { fam, be, n, rev, form }
    }
    pub fn name(&self) -> String {
        format!(
            "{}.{}.{}.{}.{}",
            self.fam.name(),
            self.be.name(),
            self.n,
            if self.rev { "rev" } else { "fwd" },
            self.form
        )
    }
    pub fn parse(s: &str) -> Option<Api> {
        let mut it = s.split('.');
        let fam = Fam::parse(it.next()?)?;
        let be = Be::parse(it.next()?)?;
        let n = it.next()?.parse().ok()?;
        let rev = it.next()? == "rev";
        let form = it.next()?.parse().ok()?;
        Some(Api { fam, be, n, rev, form })
    }
    pub fn code(&self) -> u64 {
        (self.fam as u64) << 32
            | (self.be as u64) << 24
            | (self.n as u64) << 16
            | (self.rev as u64) << 8
            | self.form as u64
    }
}

#[derive(Clone, Copy, Debug)]
pub struct Case<'a> {
    pub api: Api,
    pub hay: &'a [u8],
    pub ndl: &'a [u8],
    pub a: [u64; 4],
    pub ops: &'a [u8],
}

impl<'a> Case<'a> {
    pub fn new(api: Api, hay: &'a [u8], ndl: &'a [u8]) -> Case<'a> {
        Case { api, hay, ndl, a: [0; 4], ops: &[] }
    }
    pub fn with_a(mut self, a: [u64; 4]) -> Case<'a> {
        self.a = a;
        self
    }
    pub fn with_ops(mut self, ops: &'a [u8]) -> Case<'a> {
        self.ops = ops;
        self
    }
    pub fn hash(&self) -> u64 {
        let mut h = hash_u64(0x1234_5678_9abc_def0, self.api.code());
        h = hash_bytes(h, self.hay);
        h = hash_bytes(h, self.ndl);
        h = hash_bytes(h, self.ops);
        for &x in &self.a {
            h = hash_u64(h, x);
        }
        h
    }
    /// JSON fields (without braces) describing this case.
    pub fn json_fields(&self, hplace: Place, nplace: Place) -> String {
        format!(
            "\"api\":\"{}\",\"hay\":\"{}\",\"ndl\":\"{}\",\"a\":[{},{},{},{}],\"ops\":\"{}\",\"hplace\":\"{}\",\"nplace\":\"{}\",\"hay_len\":{},\"ndl_len\":{}",
            self.api.name(),
            hex(self.hay),
            hex(self.ndl),
            self.a[0],
            self.a[1],
            self.a[2],
            self.a[3],
            hex(self.ops),
            hplace.name(),
            nplace.name(),
            self.hay.len(),
            self.ndl.len(),
        )
    }
    /// Short human-readable rendering for evidence samples.
    pub fn sample(&self, hplace: Place, nplace: Place, result: &str) -> String {
        format!(
            "{{\"api\":\"{}\",\"hay\":\"{}\",\"hay_len\":{},\"ndl\":\"{}\",\"a\":[{},{},{},{}],\"ops\":\"{}\",\"hplace\":\"{}\",\"nplace\":\"{}\",\"result\":\"{}\"}}",
            self.api.name(),
            json_escape(&crate::util::show(self.hay)),
            self.hay.len(),
            json_escape(&crate::util::show(self.ndl)),
            self.a[0],
            self.a[1],
            self.a[2],
            self.a[3],
            json_escape(&crate::util::show(self.ops)),
            hplace.name(),
            nplace.name(),
            json_escape(result),
        )
    }
}

/// An owned case as read back from a replay file.
pub struct OwnedCase {
    pub api: Api,
    pub hay: Vec<u8>,
    pub ndl: Vec<u8>,
    pub a: [u64; 4],
    pub ops: Vec<u8>,
    pub hplace: Place,
    pub nplace: Place,
    pub force: u32,
    pub prop: String,
    pub recipe: Option<String>,
}

impl OwnedCase {
    pub fn parse(src: &str) -> Option<OwnedCase> {
        let api = Api::parse(json_get(src, "api")?)?;
        let hay = unhex(json_get(src, "hay").unwrap_or(""));
        let ndl = unhex(json_get(src, "ndl").unwrap_or(""));
        let ops = unhex(json_get(src, "ops").unwrap_or(""));
        let mut a = [0u64; 4];
        if let Some(arr) = json_get(src, "a") {
            for (i, x) in arr.split(',').enumerate().take(4) {
                a[i] = x.trim().parse().unwrap_or(0);
            }
        }
        let hplace = Place::parse(json_get(src, "hplace").unwrap_or("heap"));
        let nplace = Place::parse(json_get(src, "nplace").unwrap_or("heap"));
        let force =
            json_get(src, "force").and_then(|x| x.parse().ok()).unwrap_or(0);
        let prop = json_get(src, "prop").unwrap_or("").to_string();
        let recipe = json_get(src, "recipe").map(|s| s.to_string());
        Some(OwnedCase {
            api,
            hay,
            ndl,
            a,
            ops,
            hplace,
            nplace,
            force,
            prop,
            recipe,
        })
    }
}
