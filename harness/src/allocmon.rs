//! Counting global allocator (C17). Counts only while the calling thread has
//! armed it, so the harness' own allocations outside the monitored window are
//! invisible.
//!
//! Native: wraps `System`. wasm32: a small size-class free-list allocator over
//! a fixed region of linear memory (so that the memory end - where the
//! haystack arena lives - never moves after start-up).

#[cfg(not(target_arch = "wasm32"))]
mod imp {
    use std::alloc::{GlobalAlloc, Layout, System};
    use std::cell::Cell;

    pub struct Counting;

    thread_local! {
        static ARMED: Cell<bool> = const { Cell::new(false) };
        static COUNT: Cell<u64> = const { Cell::new(0) };
    }

    #[inline]
    fn bump() {
        // try_with: never panic inside the allocator during thread teardown
        let _ = ARMED.try_with(|a| {
            if a.get() {
                let _ = COUNT.try_with(|c| c.set(c.get() + 1));
            }
        });
    }

    unsafe impl GlobalAlloc for Counting {
        unsafe fn alloc(&self, l: Layout) -> *mut u8 {
            bump();
            System.alloc(l)
        }
        unsafe fn dealloc(&self, p: *mut u8, l: Layout) {
            bump();
            System.dealloc(p, l)
        }
        unsafe fn alloc_zeroed(&self, l: Layout) -> *mut u8 {
            bump();
            System.alloc_zeroed(l)
        }
        unsafe fn realloc(&self, p: *mut u8, l: Layout, n: usize) -> *mut u8 {
            bump();
            System.realloc(p, l, n)
        }
    }

    #[inline]
    pub fn arm() {
        ARMED.with(|a| a.set(true));
    }

    #[inline]
    pub fn disarm() -> u64 {
        ARMED.with(|a| a.set(false));
        COUNT.with(|c| c.replace(0))
    }

}

#[cfg(target_arch = "wasm32")]
mod imp {
    use core::alloc::{GlobalAlloc, Layout};

    pub struct Counting;

    const PAGE: usize = 65536;
    const HEAP_PAGES: usize = 8192; // 512 MiB
    const NCLASS: usize = 30;

    static mut BASE: usize = 0;
    static mut TOP: usize = 0;
    static mut END: usize = 0;
    static mut FREE: [usize; NCLASS] = [0; NCLASS];
    static mut ARMED: bool = false;
    static mut COUNT: u64 = 0;

    pub fn init() {
        unsafe {
            if BASE == 0 {
                let prev = core::arch::wasm32::memory_grow(0, HEAP_PAGES);
                if prev == usize::MAX {
                    core::arch::wasm32::unreachable();
                }
                BASE = prev * PAGE;
                TOP = BASE;
                END = BASE + HEAP_PAGES * PAGE;
            }
        }
    }

    fn class_of(size: usize, align: usize) -> usize {
        let need = size.max(align).max(16);
        (usize::BITS - (need - 1).leading_zeros()) as usize // 2^class >= need
    }

    unsafe impl GlobalAlloc for Counting {
        unsafe fn alloc(&self, l: Layout) -> *mut u8 {
            if ARMED {
                COUNT += 1;
            }
            init();
            let c = class_of(l.size(), l.align());
            if c >= NCLASS {
                return core::ptr::null_mut();
            }
            let head = FREE[c];
            if head != 0 {
                FREE[c] = *(head as *const usize);
                return head as *mut u8;
            }
            let sz = 1usize << c;
            // blocks are naturally aligned to their size (capped at a page)
            let al = sz.min(PAGE);
            let p = (TOP + al - 1) & !(al - 1);
            if p + sz > END {
                // the harness ran out of its own heap: tell the host, so the
                // trap that follows is not mistaken for a memchr fault
                crate::host::write_line("{\"t\":\"harness-oom\"}");
                return core::ptr::null_mut();
            }
            TOP = p + sz;
            p as *mut u8
        }
        unsafe fn dealloc(&self, p: *mut u8, l: Layout) {
            if ARMED {
                COUNT += 1;
            }
            let c = class_of(l.size(), l.align());
            *(p as *mut usize) = FREE[c];
            FREE[c] = p as usize;
        }
    }

    pub fn arm() {
        unsafe {
            ARMED = true;
        }
    }

    pub fn disarm() -> u64 {
        unsafe {
            ARMED = false;
            let c = COUNT;
            COUNT = 0;
            c
        }
    }
}

pub use imp::*;
