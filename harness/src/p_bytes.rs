//! Drivers for the byte-search properties: C01 (forward), C02 (reverse),
//! C07 (count), C06 (iterators).

#[allow(unused_imports)]
use crate::prelude::*;
use crate::case::{Api, Be, Fam};
use crate::exec::{be_available, typed_backends};
use crate::mem::{standard_places, Place};
use crate::runner::{Runner, Tier};

/// Needle sets for 1, 2 and 3 needles.
pub fn needle_sets(n: usize, r: &mut Runner, full: bool) -> Vec<[u8; 3]> {
    let x = r.rng.byte();
    let y = r.rng.byte();
    let z = r.rng.byte();
    let mut v: Vec<[u8; 3]> = Vec::new();
    match n {
        1 => {
            v.push([b'a', 0, 0]);
            v.push([0x00, 0, 0]);
            v.push([0x80, 0, 0]);
            v.push([0xFF, 0, 0]);
            if full {
                v.push([0x7F, 0, 0]);
                v.push([x, 0, 0]);
            }
        }
        2 => {
            v.push([b'a', b'b', 0]);
            v.push([0x00, 0xFF, 0]);
            v.push([b'x', b'x', 0]); // duplicate
            v.push([0x80, 0x81, 0]); // one bit apart
            if full {
                v.push([0x7F, 0xFF, 0]);
                v.push([x, y, 0]);
            }
        }
        _ => {
            v.push([b'a', b'b', b'c']);
            v.push([0x00, 0x80, 0xFF]);
            v.push([b'x', b'y', b'x']); // duplicate
            v.push([0x40, 0x41, 0x43]);
            if full {
                v.push([b'q', b'q', b'q']);
                v.push([x, y, z]);
            }
        }
    }
    v
}

fn is_nd(b: u8, nd: &[u8]) -> bool {
    nd.iter().any(|&x| x == b)
}

/// A byte that is "almost" a needle but is none of them.
fn near_miss(nd: &[u8], variant: usize) -> u8 {
    let cands = [
        nd[0] ^ 1,
        nd[0] ^ 0x80,
        0x00,
        0xFF,
        nd[nd.len() - 1].wrapping_add(1),
        nd[0] ^ 0x40,
        0x55,
        0xAA,
        0x33,
    ];
    for k in 0..cands.len() {
        let c = cands[(variant + k) % cands.len()];
        if !is_nd(c, nd) {
            return c;
        }
    }
    unreachable!()
}

/// Build a haystack of length `len` whose first (rev: last) needle byte sits
/// at `p` (None = absent). The searched side is near-miss filler; the far side
/// is noise that does contain needle bytes.
pub fn build_hay(
    buf: &mut Vec<u8>,
    len: usize,
    p: Option<usize>,
    nd: &[u8],
    rev: bool,
    variant: usize,
) {
    buf.clear();
    let fill = near_miss(nd, variant);
    let fill2 = near_miss(nd, variant + 1);
    buf.resize(len, fill);
    if variant % 2 == 1 {
        // two-valued filler so that lanes differ
        for (i, b) in buf.iter_mut().enumerate() {
            if i % 3 == 1 {
                *b = fill2;
            }
        }
    }
    if let Some(p) = p {
        buf[p] = nd[p % nd.len()];
        // noise on the far side: every 2nd/5th byte is a needle byte
        if !rev {
            for i in p + 1..len {
                if (i - p) % 2 == 0 || variant % 4 >= 2 {
                    buf[i] = nd[i % nd.len()];
                }
            }
        } else {
            for i in 0..p {
                if (p - i) % 2 == 0 || variant % 4 >= 2 {
                    buf[i] = nd[i % nd.len()];
                }
            }
        }
    }
}

pub fn byte_apis(r: &Runner, rev: bool, raw_forms: bool) -> Vec<Api> {
    let mut v = Vec::new();
    for n in 1..=3u8 {
        v.push(Api::new(Fam::Byte, Be::Top, n, rev, 0));
        if r.only == "top" {
            continue;
        }
        for be in typed_backends() {
            v.push(Api::new(Fam::Byte, be, n, rev, 0));
            if raw_forms {
                v.push(Api::new(Fam::Byte, be, n, rev, 1));
            }
        }
    }
    v
}

/// C01 / C02: the complete grid length x placement x match position.
pub fn find_grid(r: &mut Runner, rev: bool) {
    let (maxlen, full_places, variants, full_needles) = match r.tier {
        Tier::Quick => (272usize, false, 2usize, false),
        Tier::Thorough => (451, true, 4, true),
        Tier::Miri => (0, false, 1, false),
    };
    if r.tier == Tier::Miri {
        return find_miri(r, rev);
    }
    let places = standard_places(full_places);
    let apis = byte_apis(r, rev, true);
    let mut buf = Vec::new();
    let mut unit = 0u64;
    for n in 1..=3usize {
        let sets = needle_sets(n, r, full_needles);
        let apis_n: Vec<Api> =
            apis.iter().copied().filter(|a| a.n as usize == n).collect();
        for (si, set) in sets.iter().enumerate() {
            let nd = &set[..n];
            for len in 0..=maxlen {
                unit += 1;
                if !r.mine(unit) {
                    continue;
                }
                for variant in 0..variants {
                    // positions: every p, plus absent
                    for pi in 0..=len {
                        let p = if pi == len { None } else { Some(pi) };
                        build_hay(&mut buf, len, p, nd, rev, variant + si);
                        for (k, &place) in places.iter().enumerate() {
                            // the needle-set x variant dimension is rotated
                            // over the non-guard placements to bound cost
                            if let Place::Arena(_) = place {
                                if (k + len + pi + variant) % 4 != 0
                                    && r.tier == Tier::Quick
                                {
                                    continue;
                                }
                            }
                            for &api in &apis_n {
                                let nontrivial = len > 0;
                                r.run0(api, &buf, nd, place, Place::Heap, nontrivial);
                            }
                            if r.stop() {
                                return;
                            }
                        }
                    }
                }
                // raw forms with start >= end (typed backends only)
                let tb = if r.only == "top" { Vec::new() } else { typed_backends() };
                for be in tb {
                    for (s, e) in [(0usize, 0usize), (len, len), (len / 2, len / 2), (len, 0), (len, len / 2)] {
                        build_hay(&mut buf, len, if len > 0 { Some(0) } else { None }, nd, rev, 0);
                        let form = if s == e { 2 } else { 3 };
                        if form == 3 && s <= e {
                            continue;
                        }
                        let api = Api::new(Fam::Byte, be, n as u8, rev, form);
                        r.run(api, &buf, nd, [s as u64, e as u64, 0, 0], &[], Place::Arena(3), Place::Heap, len > 0);
                    }
                }
            }
        }
    }
    long_haystacks(r, rev);
}

/// Multi-page haystacks with sparse matches.
fn long_haystacks(r: &mut Runner, rev: bool) {
    let sizes: &[usize] = if r.tier == Tier::Thorough {
        &[4096, 4097, 8192, 8193, 16385, 65535, 65536, 65539, 300_000, 1 << 20]
    } else {
        &[4096, 4097, 8193, 65536, 65539]
    };
    let apis = byte_apis(r, rev, false);
    let mut unit = 0u64;
    for &len in sizes {
        for trial in 0..6u64 {
            unit += 1;
            if !r.mine(unit) {
                continue;
            }
            let nd = [b'\n', 0xFF, 0x00];
            let mut buf = vec![b'x'; len];
            let mut rr = r.rng.fork(unit);
            for b in buf.iter_mut() {
                *b = b'a' + (rr.byte() % 20);
            }
            let p = match trial {
                0 => None,
                1 => Some(len - 1),
                2 => Some(0),
                _ => Some(rr.below(len as u64) as usize),
            };
            if let Some(p) = p {
                for k in 0..3 {
                    buf[p] = nd[k];
                    if !rev && p + 1 < len {
                        let q = p + 1 + rr.below((len - p - 1) as u64) as usize;
                        buf[q] = nd[k];
                    }
                    if rev && p > 0 {
                        let q = rr.below(p as u64) as usize;
                        buf[q] = nd[k];
                    }
                }
                buf[p] = nd[(trial % 3) as usize];
            }
            let place = if len <= crate::mem::Arena::capacity() {
                if trial % 2 == 0 { Place::GuardR } else { Place::GuardL }
            } else {
                Place::Heap
            };
            for &api in &apis {
                r.run0(api, &buf, &nd[..api.n as usize], place, Place::Heap, true);
            }
        }
    }
    // residue sweep: the match at every position of a 1100-byte window in
    // the middle of a two-page haystack (every residue modulo 16 unrolled
    // vectors of any width), a decoy on the far side so that a skipped
    // position changes the answer
    let sweeps: &[usize] = if r.tier == Tier::Thorough { &[8192, 8192 + 37, 16384 + 5] } else { &[8192 + 37] };
    for &len in sweeps {
        for p in len / 2 - 550..len / 2 + 550 {
            unit += 1;
            if !r.mine(unit) {
                continue;
            }
            let nd = [0xFFu8, b'\n', 0x00];
            let mut buf = vec![b'x'; len];
            buf[p] = nd[p % 3];
            let decoy = if rev { 3 } else { len - 4 };
            buf[decoy] = nd[(p + 1) % 3];
            let place = [Place::GuardR, Place::GuardL, Place::Arena(1), Place::Arena(33)][p % 4];
            for &api in &apis {
                // the planted byte must be one of this api's needles
                let k = api.n as usize;
                if p % 3 < k {
                    r.run0(api, &buf, &nd[..k], place, Place::Heap, true);
                }
            }
        }
    }
}

/// Boundary-focused sample for Miri.
fn find_miri(r: &mut Runner, rev: bool) {
    let lens: &[usize] = &[
        0, 1, 7, 8, 9, 15, 16, 17, 31, 32, 33, 47, 48, 63, 64, 65, 79, 95, 96,
        127, 128, 129, 143, 160, 191, 255, 256, 257, 300,
    ];
    let places = [Place::Heap, Place::Arena(0), Place::Arena(1), Place::Arena(15), Place::Arena(17), Place::Arena(31)];
    let apis = byte_apis(r, rev, true);
    let mut buf = Vec::new();
    let mut unit = 0u64;
    let v = 16usize.max(if be_available(Be::Avx2) { 32 } else { 16 });
    for &len in lens {
        // positions: region boundaries
        let mut ps: Vec<Option<usize>> = vec![None];
        for q in [0usize, 1, 2, 3, 4, 5, 6, 7, 8, 9, 11, 12, 15, 16, 17, v - 1, v, v + 1, 2 * v - 1, 2 * v, 3 * v, 4 * v - 1, 4 * v, 4 * v + 1, 5 * v, 8 * v] {
            if q < len {
                ps.push(Some(q));
                ps.push(Some(len - 1 - q));
            }
        }
        ps.sort();
        ps.dedup();
        for &p in &ps {
            let block = (places.len() * apis.len()) as u64;
            let base = unit;
            unit += block;
            for o in r.mine_in_block(base, block) {
                let place = places[(o as usize) / apis.len()];
                let api = apis[(o as usize) % apis.len()];
                // needle sets rotate, including duplicated needles
                let sets: [[u8; 3]; 4] = [[b'a', 0x80, 0xFF], [b'x', b'x', 0x00], [b'k', b'q', b'k'], [0xFF, 0xFF, 0xFF]];
                let set = sets[((o / 4 + base) % 4) as usize];
                let nd = &set[..api.n as usize];
                build_hay(&mut buf, len, p, nd, rev, (o % 4) as usize);
                r.run0(api, &buf, nd, place, Place::Heap, len > 0);
                if r.stop() {
                    return;
                }
            }
        }
    }
}
