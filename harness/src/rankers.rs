//! Byte-frequency rankers for C10/C19: arbitrary `u8 -> u8` tables.

#[allow(unused_imports)]
use crate::prelude::*;
use crate::util::Rng;
use memchr::arch::all::packedpair::HeuristicFrequencyRank;

pub struct TableRanker(pub [u8; 256]);

impl HeuristicFrequencyRank for TableRanker {
    fn rank(&self, byte: u8) -> u8 {
        self.0[byte as usize]
    }
}

pub const RANKER_NAMES: &[&str] = &[
    "const0",
    "const255",
    "identity",
    "reversed",
    "random",
    "needle_bytes_most_common",
    "needle_bytes_rarest",
    "four_valued",
    "random_high_on_needle",
    "const250",
    "const251",
];

impl TableRanker {
    /// id 0..RANKER_NAMES.len(); `seed` only matters for the random ones.
    pub fn make(id: u64, seed: u64, needle: &[u8]) -> TableRanker {
        let mut t = [0u8; 256];
        match id {
            0 => {}
            1 => t = [255; 256],
            2 => {
                for (i, x) in t.iter_mut().enumerate() {
                    *x = i as u8;
                }
            }
            3 => {
                for (i, x) in t.iter_mut().enumerate() {
                    *x = 255 - i as u8;
                }
            }
            4 => {
                let mut r = Rng::new(seed);
                for x in t.iter_mut() {
                    *x = r.byte();
                }
            }
            5 => {
                for &b in needle {
                    t[b as usize] = 255;
                }
            }
            6 => {
                t = [255; 256];
                for &b in needle {
                    t[b as usize] = 0;
                }
            }
            7 => {
                for (i, x) in t.iter_mut().enumerate() {
                    *x = ((i % 4) * 64) as u8;
                }
            }
            8 => {
                let mut r = Rng::new(seed);
                for x in t.iter_mut() {
                    *x = r.byte() % 200;
                }
                for &b in needle {
                    t[b as usize] = 251 + (r.byte() % 5);
                }
            }
            9 => t = [250; 256],
            _ => t = [251; 256],
        }
        TableRanker(t)
    }
}
