//! The per-process driver state: placement arenas, reporter, context, and the
//! one function (`run`) through which every case is placed, executed under
//! `catch_unwind`, judged and recorded.

#[allow(unused_imports)]
use crate::prelude::*;
use crate::case::{Api, Case};
use crate::exec::{exec, Ctx};
use crate::mem::{Arena, Place};
use crate::report::{set_last, take_panic_msg, Reporter};
use crate::util::Rng;
#[cfg(not(target_arch = "wasm32"))]
use std::panic::{catch_unwind, AssertUnwindSafe};

#[derive(Clone, Copy, PartialEq, Eq, Debug)]
pub enum Tier {
    Quick,
    Thorough,
    /// tiny boundary-focused samples for Miri
    Miri,
}

pub struct Runner {
    pub prop: String,
    pub rep: Reporter,
    pub ctx: Ctx,
    pub hay_arena: Arena,
    pub ndl_arena: Arena,
    pub aux_arena: Arena,
    pub tier: Tier,
    pub seed: u64,
    pub shard: u64,
    pub nshards: u64,
    pub force: u32,
    pub rng: Rng,
    /// scale factor for random budgets (1.0 = default)
    pub budget: f64,
    /// when set, results are appended here (C09 transcripts)
    pub transcript: Option<Vec<u64>>,
    pub last_ok: bool,
    /// number of cases skipped because a backend/precondition was missing
    pub skipped: u64,
    /// do not judge values, only faults/panics-as-configured (C05 on
    /// mismatched calls is handled by the Mismatch family itself)
    pub recipe: Option<String>,
    /// restrict the backends a driver uses ("" = all, "top" = only the
    /// dispatching top-level entry points)
    pub only: String,
    /// when false, oracle disagreements are not reported (the property being
    /// checked only concerns faults / panics; value verdicts belong to the
    /// property that owns the oracle)
    pub judge_values: bool,
    /// when false, unexpected panics are not reported
    pub judge_panics: bool,
    /// override every placement (ASan wants exact heap allocations)
    pub force_place: Option<Place>,
    /// C17: judge the allocation counter after every case (any driver can
    /// then be reused as an allocation workload)
    pub alloc_verdict: bool,
    /// running number of the cases handed to `run` in this process
    pub case_no: u64,
    /// execute only the case with this running number (replay of a case that
    /// was traced cheaply, see `cheap_trace`)
    pub only_idx: Option<u64>,
    /// under Miri a full `case` line (hex of the haystack) costs three times
    /// as much as the case itself: print only the running number, and let the
    /// orchestrator replay `only_idx=<n>` when the interpreter stops there
    pub cheap_trace: bool,
    /// histogram of the real start / end addresses (mod 64) of the placed
    /// haystacks, and how often each abutted a guard page (evidence for C05)
    pub start_mod64: [u64; 64],
    pub end_mod64: [u64; 64],
    pub placements: [u64; 4],
    /// print a `case` line before every call (always on under Miri, where a
    /// UB report kills the process and must be attributed to a case)
    pub trace: bool,
}

impl Runner {
    pub fn new(
        prop: &str,
        config: &str,
        tier: Tier,
        seed: u64,
        shard: u64,
        nshards: u64,
        force: u32,
        use_bitmap: bool,
    ) -> Runner {
        let mut rng = Rng::new(seed);
        let rng = rng.fork(shard.wrapping_mul(7919) + 13);
        // creation order matters on wasm32 (the arena created last sits at
        // the end of linear memory): auxiliary, needle, then haystack
        let aux_arena = Arena::new(2);
        let ndl_arena = Arena::new(1);
        let hay_arena = Arena::new(0);
        Runner {
            prop: prop.to_string(),
            rep: Reporter::new(prop, config, force, use_bitmap),
            ctx: Ctx::default(),
            hay_arena,
            ndl_arena,
            aux_arena,
            tier,
            seed,
            shard,
            nshards: nshards.max(1),
            force,
            rng,
            budget: 1.0,
            transcript: None,
            last_ok: true,
            skipped: 0,
            recipe: None,
            only: String::new(),
            judge_values: true,
            judge_panics: true,
            force_place: None,
            alloc_verdict: false,
            case_no: 0,
            only_idx: None,
            cheap_trace: cfg!(miri),
            start_mod64: [0; 64],
            end_mod64: [0; 64],
            placements: [0; 4],
            trace: cfg!(miri),
        }
    }

    /// Work splitting: is the unit with running number `k` mine?
    #[inline]
    pub fn mine(&self, k: u64) -> bool {
        k % self.nshards == self.shard
    }

    /// Offsets `o` in `0..size` such that the flat index `base + o` is mine.
    /// Lets drivers skip whole blocks without iterating them (matters under
    /// Miri, where an empty loop iteration costs ~0.1 ms).
    pub fn mine_in_block(&self, base: u64, size: u64) -> Vec<u64> {
        let n = self.nshards;
        let first = (self.shard + n - base % n) % n;
        let mut v = Vec::new();
        let mut o = first;
        while o < size {
            v.push(o);
            o += n;
        }
        v
    }

    pub fn stop(&self) -> bool {
        self.rep.too_many_fails()
    }

    pub fn scaled(&self, n: u64) -> u64 {
        ((n as f64) * self.budget).max(1.0) as u64
    }

    /// Place, execute, judge and record one case. Returns true when the case
    /// was judged and held.
    pub fn run(
        &mut self,
        api: Api,
        hay: &[u8],
        ndl: &[u8],
        a: [u64; 4],
        ops: &[u8],
        hplace: Place,
        nplace: Place,
        nontrivial: bool,
    ) -> bool {
        self.case_no += 1;
        if let Some(k) = self.only_idx {
            if self.case_no != k {
                return true;
            }
        }
        let prop = self.prop.clone();
        let (hplace, nplace) = match self.force_place {
            Some(p) => (p, p),
            None => (hplace, nplace),
        };
        let ph = self.hay_arena.place(hay, hplace);
        self.start_mod64[(ph.as_ptr() as usize) % 64] += 1;
        self.end_mod64[(ph.as_ptr() as usize + ph.len()) % 64] += 1;
        self.placements[match hplace {
            Place::Heap => 0,
            Place::Arena(_) => 1,
            Place::GuardR => 2,
            Place::GuardL => 3,
        }] += 1;
        let pn = self.ndl_arena.place(ndl, nplace);
        // the Mismatch family carries its search needle in `ops`: give it the
        // same guard-page treatment as the construction needle
        let ops: &[u8] = if api.fam == crate::case::Fam::Mismatch {
            self.aux_arena.place(ops, nplace)
        } else {
            ops
        };
        let case = Case { api, hay: ph, ndl: pn, a, ops };
        set_last(&prop, &case, hplace, nplace, self.force);
        if self.trace && self.cheap_trace && self.only_idx.is_none() {
            println!(
                "{{\"t\":\"case\",\"idx\":{},\"apicode\":{},\"hay_len\":{},\"ndl_len\":{}}}",
                self.case_no,
                case.api.code(),
                case.hay.len(),
                case.ndl.len()
            );
        } else if self.trace {
            // multi-megabyte haystacks are identified by their recipe
            let small;
            let shown: &Case = if case.hay.len() > (1 << 16) {
                small = Case { hay: &case.hay[..64], ..case };
                &small
            } else {
                &case
            };
            println!(
                "{{\"t\":\"case\",\"prop\":\"{}\",\"force\":{},\"full_hay_len\":{},\"recipe\":\"{}\",{}}}",
                prop,
                self.force,
                case.hay.len(),
                self.recipe.as_deref().unwrap_or(""),
                shown.json_fields(hplace, nplace)
            );
        }
        self.ctx.reset();
        let want = self.rep.want_sample();
        self.ctx.want_text = want;
        let ctx = &mut self.ctx;
        #[cfg(not(target_arch = "wasm32"))]
        let r = catch_unwind(AssertUnwindSafe(|| exec(&case, ctx)));
        // wasm32-unknown-unknown has no unwinding: a panic traps, and the
        // host attributes the trap to the case recorded by `set_last`
        #[cfg(target_arch = "wasm32")]
        let r: Result<Result<(), String>, ()> = Ok(exec(&case, ctx));
        let skipped = self.ctx.skipped;
        if skipped {
            self.skipped += 1;
        }
        self.rep.mark(case.hash(), nontrivial && !skipped);
        if let Some(t) = self.transcript.as_mut() {
            t.push(self.ctx.digest);
        }
        let ok = match r {
            Ok(Ok(())) => true,
            Ok(Err(_)) if !self.judge_values => true,
            Err(_) if !self.judge_panics => {
                let _ = take_panic_msg();
                true
            }
            Ok(Err(msg)) => {
                let recipe = self.recipe.clone();
                self.rep.fail(
                    &prop,
                    "value",
                    &case,
                    hplace,
                    nplace,
                    &msg,
                    recipe.as_deref(),
                );
                false
            }
            Err(_) => {
                let msg = take_panic_msg();
                let recipe = self.recipe.clone();
                self.rep.fail(
                    &prop,
                    "panic",
                    &case,
                    hplace,
                    nplace,
                    &format!("unexpected panic: {}", msg),
                    recipe.as_deref(),
                );
                false
            }
        };
        let ok = if ok && self.alloc_verdict && self.ctx.allocs > 0 {
            let n = self.ctx.allocs;
            self.rep.fail(
                "C17",
                "alloc",
                &case,
                hplace,
                nplace,
                &format!("{} heap allocator calls inside the monitored search windows of this case", n),
                None,
            );
            false
        } else {
            ok
        };
        if want && ok && !skipped {
            let text = if self.ctx.result_text.is_empty() {
                "ok".to_string()
            } else {
                self.ctx.result_text.clone()
            };
            self.rep.add_sample(case.sample(hplace, nplace, &text));
        }
        self.last_ok = ok;
        ok
    }

    /// Fold the address histograms into the reporter's counters.
    pub fn flush_histograms(&mut self) {
        for k in 0..64 {
            if self.start_mod64[k] > 0 {
                self.rep.count(&format!("hay_start_mod64_{:02}", k), self.start_mod64[k]);
            }
            if self.end_mod64[k] > 0 {
                self.rep.count(&format!("hay_end_mod64_{:02}", k), self.end_mod64[k]);
            }
        }
        let names = ["placed_exact_heap", "placed_arena_offset", "placed_guard_right", "placed_guard_left"];
        for (i, n) in names.iter().enumerate() {
            self.rep.count(n, self.placements[i]);
        }
    }

    /// Shorthand: no extra args, no ops.
    pub fn run0(
        &mut self,
        api: Api,
        hay: &[u8],
        ndl: &[u8],
        hplace: Place,
        nplace: Place,
        nontrivial: bool,
    ) -> bool {
        self.run(api, hay, ndl, [0; 4], &[], hplace, nplace, nontrivial)
    }
}
