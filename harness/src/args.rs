//! `key=value` argument list shared by the native binary and the wasm module.

use crate::prelude::*;

pub struct Args {
    pub cmd: String,
    pub kv: Vec<(String, String)>,
}

impl Args {
    pub fn from_words<I: Iterator<Item = String>>(mut it: I) -> Args {
        let cmd = it.next().unwrap_or_default();
        let kv = it
            .filter_map(|a| {
                a.split_once('=').map(|(k, v)| (k.to_string(), v.to_string()))
            })
            .collect();
        Args { cmd, kv }
    }
    pub fn get(&self, k: &str) -> Option<&str> {
        self.kv.iter().find(|e| e.0 == k).map(|e| e.1.as_str())
    }
    pub fn num(&self, k: &str, d: u64) -> u64 {
        self.get(k).and_then(|v| v.parse().ok()).unwrap_or(d)
    }
    pub fn fnum(&self, k: &str, d: f64) -> f64 {
        self.get(k).and_then(|v| v.parse().ok()).unwrap_or(d)
    }
}

