//! Placement of haystacks and needles in memory.
//!
//! Native: an arena of `DATA_PAGES` readable pages bracketed by two
//! `PROT_NONE` pages. `GuardR` puts the last byte of a slice right before the
//! trailing guard page, `GuardL` puts the first byte right after the leading
//! guard page, `Arena(off)` puts the slice at a 64-byte aligned address plus
//! `off` (no guard adjacency), `Heap` uses an exactly sized heap allocation
//! (what ASan and Miri want).
//!
//! Under Miri (no mmap) every placement is backed by its own heap allocation:
//! `Heap`, `GuardR` and `GuardL` are exact-size allocations (so Miri checks
//! both ends), `Arena(off)` is a 64-aligned allocation of `off + len` bytes.

#[allow(unused_imports)]
use crate::prelude::*;
#[derive(Clone, Copy, Debug, PartialEq, Eq)]
pub enum Place {
    Heap,
    Arena(u8),
    GuardR,
    GuardL,
}

impl Place {
    pub fn name(&self) -> String {
        match *self {
            Place::Heap => "heap".to_string(),
            Place::Arena(o) => format!("arena{}", o),
            Place::GuardR => "guardR".to_string(),
            Place::GuardL => "guardL".to_string(),
        }
    }
    pub fn parse(s: &str) -> Place {
        match s {
            "heap" => Place::Heap,
            "guardR" => Place::GuardR,
            "guardL" => Place::GuardL,
            s if s.starts_with("arena") => {
                Place::Arena(s[5..].parse().unwrap_or(0))
            }
            _ => Place::Heap,
        }
    }
}

pub const PAGE: usize = 4096;
pub const DATA_PAGES: usize = 24;
pub const DATA_LEN: usize = PAGE * DATA_PAGES;

#[cfg(all(not(miri), not(target_arch = "wasm32")))]
mod sys {
    extern "C" {
        pub fn mmap(
            addr: *mut u8,
            len: usize,
            prot: i32,
            flags: i32,
            fd: i32,
            off: i64,
        ) -> *mut u8;
        pub fn mprotect(addr: *mut u8, len: usize, prot: i32) -> i32;
    }
    pub const PROT_NONE: i32 = 0;
    pub const PROT_READ: i32 = 1;
    pub const PROT_WRITE: i32 = 2;
    pub const MAP_PRIVATE: i32 = 2;
    pub const MAP_ANONYMOUS: i32 = 0x20;
}

/// One arena. A slice handed out by `place` stays valid until the next call
/// of `place` on the same arena.
pub struct Arena {
    #[cfg(all(not(miri), not(target_arch = "wasm32")))]
    base: *mut u8,
    /// wasm32: start of this arena's region of linear memory; the region of
    /// the arena created last ends exactly at the end of linear memory
    #[cfg(target_arch = "wasm32")]
    base: usize,
    heap: Vec<u8>,
    #[cfg(miri)]
    aligned: Option<(*mut u8, std::alloc::Layout)>,
    /// which arena this is, for fault attribution (0 = haystack, 1 = needle,
    /// 2 = auxiliary)
    pub id: usize,
}

/// Address ranges of the guard pages of every arena created so far:
/// (id, before_start, data_start, data_end). Read by the fault handler.
pub static mut GUARDS: [(usize, usize, usize); 8] = [(0, 0, 0); 8];
pub static mut NGUARDS: usize = 0;

impl Arena {
    pub fn new(id: usize) -> Arena {
        #[cfg(target_arch = "wasm32")]
        {
            // DATA_LEN rounded up to whole 64 KiB wasm pages, taken from the
            // top of linear memory. There are no guard pages in wasm; what
            // traps is an access past the *end of linear memory*, so only the
            // arena created last offers a "guard-right" placement. Runner::new
            // creates the haystack arena last.
            crate::allocmon::init();
            let pages = (DATA_LEN + 65535) / 65536;
            let prev = core::arch::wasm32::memory_grow(0, pages);
            if prev == usize::MAX {
                core::arch::wasm32::unreachable();
            }
            let base = prev * 65536 + pages * 65536 - DATA_LEN;
            return Arena { base, heap: Vec::new(), id };
        }
        #[cfg(all(not(miri), not(target_arch = "wasm32")))]
        unsafe {
            let total = DATA_LEN + 2 * PAGE;
            let base = sys::mmap(
                core::ptr::null_mut(),
                total,
                sys::PROT_READ | sys::PROT_WRITE,
                sys::MAP_PRIVATE | sys::MAP_ANONYMOUS,
                -1,
                0,
            );
            assert!(base as isize != -1, "mmap failed");
            assert_eq!(0, sys::mprotect(base, PAGE, sys::PROT_NONE));
            assert_eq!(
                0,
                sys::mprotect(base.add(PAGE + DATA_LEN), PAGE, sys::PROT_NONE)
            );
            let n = NGUARDS;
            if n < 8 {
                GUARDS[n] = (id, base as usize + PAGE, base as usize + PAGE + DATA_LEN);
                NGUARDS = n + 1;
            }
            Arena { base, heap: Vec::new(), id }
        }
        #[cfg(miri)]
        {
            Arena { heap: Vec::new(), aligned: None, id }
        }
    }

    /// Largest slice that fits into guard/arena placements.
    pub fn capacity() -> usize {
        DATA_LEN - 128
    }

    /// Copy `bytes` into this arena at the given placement and return the
    /// placed slice. Slices too large for the arena fall back to `Heap`.
    pub fn place<'a>(&'a mut self, bytes: &[u8], place: Place) -> &'a [u8] {
        let len = bytes.len();
        let place =
            if len > Arena::capacity() { Place::Heap } else { place };
        #[cfg(target_arch = "wasm32")]
        unsafe {
            let data = self.base as *mut u8;
            let p = match place {
                Place::Heap => {
                    self.heap = Vec::new();
                    self.heap.reserve_exact(len);
                    self.heap.extend_from_slice(bytes);
                    return &self.heap[..];
                }
                Place::GuardR => data.add(DATA_LEN - len),
                Place::GuardL => data,
                Place::Arena(off) => data.add(1024 + (off as usize)),
            };
            core::ptr::copy_nonoverlapping(bytes.as_ptr(), p, len);
            return core::slice::from_raw_parts(p, len);
        }
        #[cfg(all(not(miri), not(target_arch = "wasm32")))]
        unsafe {
            let data = self.base.add(PAGE);
            let p = match place {
                Place::Heap => {
                    // exact-size allocation: shrink_to_fit on a fresh Vec
                    self.heap = Vec::new();
                    self.heap.reserve_exact(len);
                    self.heap.extend_from_slice(bytes);
                    return &self.heap[..];
                }
                Place::GuardR => data.add(DATA_LEN - len),
                Place::GuardL => data,
                Place::Arena(off) => data.add(1024 + (off as usize)),
            };
            core::ptr::copy_nonoverlapping(bytes.as_ptr(), p, len);
            core::slice::from_raw_parts(p, len)
        }
        #[cfg(miri)]
        unsafe {
            if let Some((p, l)) = self.aligned.take() {
                std::alloc::dealloc(p, l);
            }
            match place {
                Place::Arena(off) => {
                    let off = off as usize;
                    let l = std::alloc::Layout::from_size_align(
                        (off + len).max(1),
                        64,
                    )
                    .unwrap();
                    let p = std::alloc::alloc_zeroed(l);
                    core::ptr::copy_nonoverlapping(
                        bytes.as_ptr(),
                        p.add(off),
                        len,
                    );
                    self.aligned = Some((p, l));
                    core::slice::from_raw_parts(p.add(off), len)
                }
                _ => {
                    self.heap = Vec::new();
                    self.heap.reserve_exact(len);
                    self.heap.extend_from_slice(bytes);
                    &self.heap[..]
                }
            }
        }
    }
}

#[cfg(miri)]
impl Drop for Arena {
    fn drop(&mut self) {
        if let Some((p, l)) = self.aligned.take() {
            unsafe { std::alloc::dealloc(p, l) };
        }
    }
}

/// The standard sweep of placements used by drivers.
pub fn standard_places(full: bool) -> Vec<Place> {
    let mut v = vec![Place::GuardR, Place::GuardL, Place::Heap];
    let offs: &[u8] = if full {
        &[
            0, 1, 2, 3, 4, 5, 6, 7, 8, 9, 15, 16, 17, 31, 32, 33, 47, 48, 49,
            63,
        ]
    } else {
        &[0, 1, 15, 17, 33]
    };
    for &o in offs {
        v.push(Place::Arena(o));
    }
    v
}
