//! C15: concurrent use gives the same answers as sequential use.
//!
//! One process = one first-call race on the seven dispatched routines
//! (the dispatch slot of each routine is installed exactly once per process)
//! followed by shared-object workloads. The failpoint hook inside `detect`
//! counts how many threads are simultaneously between "chose an
//! implementation" and "stored it", per routine, and widens that window.

use crate::case::{Api, Be, Case, Fam};
use crate::mem::Place;
use crate::oracle;
use crate::runner::Runner;
use crate::util::Rng;
use std::cell::Cell;
use std::sync::atomic::{AtomicU32, AtomicU64, Ordering};
use std::sync::{Arc, Mutex};

const NSLOTS: usize = 7;
const SLOT_NAMES: [&str; NSLOTS] =
    ["memchr", "memrchr", "memchr2", "memrchr2", "memchr3", "memrchr3", "count"];

#[allow(clippy::declare_interior_mutable_const)]
const Z32: AtomicU32 = AtomicU32::new(0);
static INSIDE: [AtomicU32; NSLOTS] = [Z32; NSLOTS];
static MAXIN: [AtomicU32; NSLOTS] = [Z32; NSLOTS];
static ENTERED: [AtomicU32; NSLOTS] = [Z32; NSLOTS];
static DELAY: AtomicU64 = AtomicU64::new(0);

thread_local! {
    static SLOT: Cell<usize> = const { Cell::new(0) };
}

fn failpoint(id: u32) {
    let slot = SLOT.with(|s| s.get());
    if id == 1 {
        ENTERED[slot].fetch_add(1, Ordering::SeqCst);
        let c = INSIDE[slot].fetch_add(1, Ordering::SeqCst) + 1;
        MAXIN[slot].fetch_max(c, Ordering::SeqCst);
        // widen the window between choosing and storing
        let d = DELAY.load(Ordering::Relaxed);
        let spins = (d.wrapping_mul(slot as u64 + 3) % 5) as usize;
        for _ in 0..spins {
            std::thread::yield_now();
        }
        if !cfg!(miri) {
            for _ in 0..(d % 2000) {
                std::hint::spin_loop();
            }
        }
    } else {
        std::thread::yield_now();
        INSIDE[slot].fetch_sub(1, Ordering::SeqCst);
    }
}

#[derive(Clone)]
struct Call {
    slot: usize,
    hay: Vec<u8>,
    nd: [u8; 3],
    expected: u64,
}

fn call(c: &Call) -> u64 {
    let h = &c.hay[..];
    let n = c.nd;
    let enc = |o: Option<usize>| o.map(|x| x as u64).unwrap_or(u64::MAX);
    match c.slot {
        0 => enc(memchr::memchr(n[0], h)),
        1 => enc(memchr::memrchr(n[0], h)),
        2 => enc(memchr::memchr2(n[0], n[1], h)),
        3 => enc(memchr::memrchr2(n[0], n[1], h)),
        4 => enc(memchr::memchr3(n[0], n[1], n[2], h)),
        5 => enc(memchr::memrchr3(n[0], n[1], n[2], h)),
        _ => memchr::memchr_iter(n[0], h).count() as u64,
    }
}

fn expect(slot: usize, h: &[u8], n: [u8; 3]) -> u64 {
    let enc = |o: Option<usize>| o.map(|x| x as u64).unwrap_or(u64::MAX);
    match slot {
        0 => enc(oracle::first(h, &n[..1])),
        1 => enc(oracle::last(h, &n[..1])),
        2 => enc(oracle::first(h, &n[..2])),
        3 => enc(oracle::last(h, &n[..2])),
        4 => enc(oracle::first(h, &n[..3])),
        5 => enc(oracle::last(h, &n[..3])),
        _ => oracle::count(h, &n[..1]) as u64,
    }
}

/// Reusable spin barrier: threads leave it within nanoseconds of each other
/// (a futex-based barrier staggers wake-ups by microseconds, which is longer
/// than the windows we are trying to hit).
struct SpinBarrier {
    n: usize,
    count: std::sync::atomic::AtomicUsize,
    generation: std::sync::atomic::AtomicUsize,
}

impl SpinBarrier {
    fn new(n: usize) -> SpinBarrier {
        SpinBarrier {
            n,
            count: std::sync::atomic::AtomicUsize::new(0),
            generation: std::sync::atomic::AtomicUsize::new(0),
        }
    }
    fn wait(&self) {
        let gen = self.generation.load(Ordering::Acquire);
        if self.count.fetch_add(1, Ordering::AcqRel) + 1 == self.n {
            self.count.store(0, Ordering::Release);
            self.generation.fetch_add(1, Ordering::AcqRel);
        } else {
            let mut spins = 0u32;
            while self.generation.load(Ordering::Acquire) == gen {
                spins += 1;
                if cfg!(miri) || spins > 20_000 {
                    std::thread::yield_now();
                } else {
                    std::hint::spin_loop();
                }
            }
        }
    }
}

const ALPHA: [u8; 8] = [b'a', b'b', b'c', 0x00, 0x80, 0xFF, b'\n', b'z'];

fn make_call(rng: &mut Rng, slot: usize, nd: [u8; 3]) -> Call {
    let len = [0usize, 3, 15, 16, 31, 32, 33, 64, 100, 257, 1000][rng.below(11) as usize] + rng.below(3) as usize;
    let len = if cfg!(miri) { len.min(70) } else { len };
    // needles come from a small shared alphabet and the haystack is made of
    // that alphabet plus filler, so that a call which (through a race) is
    // answered for ANOTHER thread's needles almost always gives a different
    // result from the sequential one
    let mut hay = vec![0u8; len];
    for b in hay.iter_mut() {
        *b = if rng.below(10) == 0 { ALPHA[rng.below(8) as usize] } else { b'd' + rng.byte() % 20 };
    }
    let expected = expect(slot, &hay, nd);
    Call { slot, hay, nd, expected }
}

pub fn concurrent(r: &mut Runner, threads: usize) {
    let threads = threads.max(2);
    crate::hooks::set_failpoint(Some(failpoint));
    DELAY.store(r.rng.next(), Ordering::Relaxed);
    let more = if cfg!(miri) { 6 } else { 50 };
    // --- (a) first-call race ------------------------------------------------
    // everything each thread needs is computed before the barrier, without
    // touching memchr
    // mode 0: every thread visits the seven routines in its own order;
    // mode 1 ("lockstep"): all threads use one order and meet at a barrier
    // before each first call, so that all of them are inside the same
    // routine's `detect` at once
    let lockstep = r.shard % 2 == 1;
    let mut common: Vec<usize> = (0..NSLOTS).collect();
    for i in (1..NSLOTS).rev() {
        common.swap(i, r.rng.below(i as u64 + 1) as usize);
    }
    let mut plans: Vec<Vec<Call>> = Vec::new();
    for t in 0..threads {
        let mut rng = r.rng.fork(t as u64 + 1);
        let mut order: Vec<usize> = (0..NSLOTS).collect();
        for i in (1..NSLOTS).rev() {
            order.swap(i, rng.below(i as u64 + 1) as usize);
        }
        if lockstep {
            order = common.clone();
        }
        // every thread keeps its own needles for all of its calls, so that
        // state left behind by a lost race (e.g. a cache keyed on the needle)
        // is exercised again by the later calls and by the post-race re-check
        let nd = [
            ALPHA[rng.below(8) as usize],
            ALPHA[rng.below(8) as usize],
            ALPHA[rng.below(8) as usize],
        ];
        let mut plan: Vec<Call> = order.iter().map(|&s| make_call(&mut rng, s, nd)).collect();
        for _ in 0..more {
            let s = rng.below(NSLOTS as u64) as usize;
            plan.push(make_call(&mut rng, s, nd));
        }
        plans.push(plan);
    }
    let barrier = Arc::new(SpinBarrier::new(threads));
    let bad: Arc<Mutex<Vec<(Call, u64)>>> = Arc::new(Mutex::new(Vec::new()));
    let mut handles = Vec::new();
    let recheck: Vec<Call> = plans.iter().flat_map(|p| p.iter().take(NSLOTS + 4).cloned()).collect();
    let mut hashes: Vec<u64> = Vec::new();
    for (t, plan) in plans.iter().enumerate().take(2) {
        let order: Vec<&str> = plan.iter().take(NSLOTS).map(|c| SLOT_NAMES[c.slot]).collect();
        let c = &plan[0];
        r.rep.add_sample(format!(
            "{{\"kind\":\"first-call race\",\"threads\":{},\"forced_cpu_level\":{},\"thread\":{},\"first_call_order\":\"{}\",\"first_call\":{{\"routine\":\"{}\",\"hay\":\"{}\",\"hay_len\":{},\"needles\":\"{}\",\"sequential_answer\":{}}},\"calls_in_thread\":{}}}",
            threads,
            r.force,
            t,
            order.join(","),
            SLOT_NAMES[c.slot],
            crate::util::json_escape(&crate::util::show(&c.hay)),
            c.hay.len(),
            crate::util::json_escape(&crate::util::show(&c.nd)),
            c.expected as i64,
            plan.len()
        ));
    }
    for plan in plans {
        for c in &plan {
            let h = crate::util::hash_u64(0xC15, c.slot as u64);
            let h = crate::util::hash_bytes(h, &c.hay);
            hashes.push(crate::util::hash_bytes(h, &c.nd));
        }
        let barrier = barrier.clone();
        let bad = bad.clone();
        handles.push(std::thread::spawn(move || {
            barrier.wait();
            for (k, c) in plan.iter().enumerate() {
                if lockstep && k > 0 && k < NSLOTS {
                    barrier.wait();
                }
                SLOT.with(|s| s.set(c.slot));
                let got = call(c);
                if got != c.expected {
                    bad.lock().unwrap().push((c.clone(), got));
                }
            }
        }));
    }
    let mut panicked = 0;
    for h in handles {
        if h.join().is_err() {
            panicked += 1;
        }
    }
    for h in hashes {
        r.rep.mark(h, true);
    }
    // post-race re-check: the same calls again, sequentially, from this
    // thread - whatever the racing installations left behind must still give
    // the sequential answers
    let mut sticky = 0u64;
    for c in &recheck {
        SLOT.with(|s| s.set(c.slot));
        let got = call(c);
        r.rep.evals += 1;
        if got != c.expected {
            sticky += 1;
            bad.lock().unwrap().push((c.clone(), got));
        }
    }
    r.rep.count("post_race_rechecks", recheck.len() as u64);
    r.rep.count("post_race_wrong", sticky);
    for (c, got) in bad.lock().unwrap().iter() {
        let (n, rev) = match c.slot {
            0 => (1, false),
            1 => (1, true),
            2 => (2, false),
            3 => (2, true),
            4 => (3, false),
            5 => (3, true),
            _ => (1, false),
        };
        let fam = if c.slot == 6 { Fam::Count } else { Fam::Byte };
        let case = Case::new(Api::new(fam, Be::Top, n, rev, 0), &c.hay, &c.nd);
        r.rep.fail(
            "C15",
            "race-value",
            &case,
            Place::Heap,
            Place::Heap,
            &format!(
                "{} called concurrently with {} threads returned {:#x}, sequential answer is {:#x}",
                SLOT_NAMES[c.slot], threads, got, c.expected
            ),
            None,
        );
    }
    if panicked > 0 {
        let case = Case::new(Api::new(Fam::Byte, Be::Top, 1, false, 0), &[], &[0, 0, 0]);
        r.rep.fail("C15", "panic", &case, Place::Heap, Place::Heap, &format!("{} racing threads panicked: {}", panicked, crate::report::take_panic_msg()), None);
    }
    let mut with2 = 0;
    for s in 0..NSLOTS {
        let m = MAXIN[s].load(Ordering::SeqCst) as u64;
        r.rep.count(&format!("racers_hist_{}", m.min(9)), 1);
        r.rep.set_max("max_concurrent_installers", m);
        r.rep.count("detect_entries", ENTERED[s].load(Ordering::SeqCst) as u64);
        if m >= 2 {
            with2 += 1;
        }
    }
    r.rep.count("slots_with_2plus_racers", with2);
    r.rep.count("slots_raced", NSLOTS as u64);
    r.rep.count("processes", 1);
    r.rep.count(if lockstep { "processes_lockstep" } else { "processes_free_order" }, 1);
    r.rep.count("threads", threads as u64);
    crate::hooks::set_failpoint(None);

    // --- (b) shared objects ---------------------------------------------------
    shared_objects(r, threads);
}

fn shared_objects(r: &mut Runner, threads: usize) {
    use memchr::memmem;
    let mut rng = r.rng.fork(0xB0B);
    let needles: Vec<Vec<u8>> = vec![
        b"ab".to_vec(),
        b"abcabcabd".to_vec(),
        {
            let common = b"etaoin shrdlu";
            let mut x: Vec<u8> = (0..40).map(|i| common[(i * 5 + i / 7) % common.len()]).collect();
            x[3] = b'Z';
            x[4] = b'q';
            x
        },
        vec![],
        b"z".to_vec(),
    ];
    let bad: Mutex<Vec<String>> = Mutex::new(Vec::new());
    let mut evals = 0u64;
    let mut hashes: Vec<u64> = Vec::new();
    let per_thread = if cfg!(miri) { 3 } else { 6 };
    // several rounds per needle: every round builds fresh finders, i.e. a
    // fresh "first use" for all threads to race on
    let rounds = if cfg!(miri) { 1 } else { 6 };
    let round_needles: Vec<&Vec<u8>> = (0..rounds).flat_map(|_| needles.iter()).collect();
    for ndl in round_needles {
        // thread-specific haystacks and sequential answers
        let mut work: Vec<Vec<(Vec<u8>, Option<usize>, Option<usize>)>> = Vec::new();
        for _ in 0..threads {
            let mut v = Vec::new();
            for k in 0..per_thread {
                // the first searches of every thread go through the
                // short-haystack routes (below 16 bytes / below the vector
                // minimum): whatever a finder sets up lazily on first use is
                // then set up by all threads at once
                let hl = if k == 0 {
                    (ndl.len() + rng.range(0, 6)).max(3)
                } else if k == 1 {
                    ndl.len() + 14 + rng.range(0, 20)
                } else {
                    [10usize, 40, 70, 200, 600][rng.below(5) as usize]
                };
                let hl = if cfg!(miri) { hl.min(90) } else { hl };
                let mut hay = vec![0u8; hl];
                if rng.chance(1, 3) {
                    for (i, b) in hay.iter_mut().enumerate() {
                        *b = if i % 2 == 0 { b'Z' } else { b'q' };
                    }
                } else {
                    rng.fill(&mut hay, b"abcd e");
                }
                if ndl.len() <= hl && (k < 2 || rng.chance(2, 3)) {
                    let d = rng.range(0, hl - ndl.len());
                    hay[d..d + ndl.len()].copy_from_slice(ndl);
                }
                let ef = oracle::find(&hay, ndl);
                let er = oracle::rfind(&hay, ndl);
                for kind in 0..5u64 {
                    let h = crate::util::hash_u64(0xC15B, kind);
                    let h = crate::util::hash_bytes(h, &hay);
                    hashes.push(crate::util::hash_bytes(h, ndl));
                }
                v.push((hay, ef, er));
            }
            work.push(v);
        }
        let nbuf = ndl.clone();
        let finder = memmem::Finder::new(&nbuf);
        let finder_rev = memmem::FinderRev::new(&nbuf);
        #[cfg(feature = "alloc")]
        let owned = memmem::Finder::new(&nbuf).into_owned();
        #[cfg(feature = "alloc")]
        let owned_rev = memmem::FinderRev::new(&nbuf).into_owned();
        let gate = SpinBarrier::new(work.len());
        std::thread::scope(|s| {
            for (t, w) in work.iter().enumerate() {
                let gate = &gate;
                let finder = &finder;
                let finder_rev = &finder_rev;
                let bad = &bad;
                #[cfg(feature = "alloc")]
                let mine = owned.clone();
                #[cfg(feature = "alloc")]
                let mine_rev = owned_rev.clone();
                s.spawn(move || {
                    gate.wait();
                    for (hay, ef, er) in w {
                        let g = finder.find(hay);
                        if g != *ef {
                            bad.lock().unwrap().push(format!("shared Finder::find in thread {}: expected {:?}, got {:?}", t, ef, g));
                        }
                        let g = finder_rev.rfind(hay);
                        if g != *er {
                            bad.lock().unwrap().push(format!("shared FinderRev::rfind in thread {}: expected {:?}, got {:?}", t, er, g));
                        }
                        let g: Vec<usize> = finder.find_iter(hay).take(hay.len() + 2).collect();
                        if g.first().copied() != *ef {
                            bad.lock().unwrap().push(format!("shared Finder::find_iter in thread {}: first {:?}, expected {:?}", t, g.first(), ef));
                        }
                        #[cfg(feature = "alloc")]
                        {
                            let g = mine.find(hay);
                            if g != *ef {
                                bad.lock().unwrap().push(format!("moved owned Finder in thread {}: expected {:?}, got {:?}", t, ef, g));
                            }
                            let g = mine_rev.rfind(hay);
                            if g != *er {
                                bad.lock().unwrap().push(format!("moved owned FinderRev in thread {}: expected {:?}, got {:?}", t, er, g));
                            }
                        }
                    }
                });
            }
        });
        evals += (threads * per_thread * 5) as u64;
    }
    // partially consumed iterators cloned and sent to other threads
    let hl = if cfg!(miri) { 120 } else { 3000 };
    let mut hay = vec![0u8; hl];
    for b in hay.iter_mut() {
        *b = if rng.below(5) == 0 { [b'x', 0x80, 0xFF][rng.below(3) as usize] } else { b'm' };
    }
    for n in 1..=3usize {
        let nd = [b'x', 0x80, 0xFF];
        let mut model: Vec<usize> = oracle::positions(&hay, &nd[..n]).into_iter().collect();
        macro_rules! drive {
            ($it:expr) => {{
                let mut it = $it;
                let a = it.next();
                let b = it.next_back();
                let c = it.next();
                if !model.is_empty() {
                    let ea = Some(model.remove(0));
                    let eb = model.pop();
                    let ec = if model.is_empty() { None } else { Some(model.remove(0)) };
                    if (a, b, c) != (ea, eb, ec) {
                        bad.lock().unwrap().push(format!("iterator prefix mismatch for {} needles", n));
                    }
                }
                let remaining = &model;
                std::thread::scope(|s| {
                    for t in 0..threads.min(4) {
                        let cl = it.clone();
                        let bad = &bad;
                        s.spawn(move || {
                            let got: Vec<usize> = if t % 2 == 0 { cl.collect() } else { let mut v: Vec<usize> = cl.rev().collect(); v.reverse(); v };
                            if &got != remaining {
                                bad.lock().unwrap().push(format!("cloned iterator continued in thread {} yielded {} positions, expected {}", t, got.len(), remaining.len()));
                            }
                        });
                    }
                });
            }};
        }
        match n {
            1 => drive!(memchr::memchr_iter(nd[0], &hay)),
            2 => drive!(memchr::memchr2_iter(nd[0], nd[1], &hay)),
            _ => drive!(memchr::memchr3_iter(nd[0], nd[1], nd[2], &hay)),
        }
        evals += threads.min(4) as u64;
    }
    // FindIter / FindRevIter clones
    {
        let nd = b"mm";
        let exp_f = oracle::greedy_fwd(&hay, nd);
        let exp_r = oracle::greedy_rev(&hay, nd);
        let mut itf = memmem::find_iter(&hay, nd);
        let mut itr = memmem::rfind_iter(&hay, nd);
        let f0 = itf.next();
        let r0 = itr.next();
        if f0 != exp_f.first().copied() || r0 != exp_r.first().copied() {
            bad.lock().unwrap().push("FindIter/FindRevIter first element mismatch".to_string());
        }
        std::thread::scope(|s| {
            for t in 0..threads.min(4) {
                let cf = itf.clone();
                let cr = itr.clone();
                let (ef, er, bad) = (&exp_f, &exp_r, &bad);
                s.spawn(move || {
                    let gf: Vec<usize> = cf.take(ef.len() + 2).collect();
                    let gr: Vec<usize> = cr.take(er.len() + 2).collect();
                    if gf[..] != ef[1.min(ef.len())..] || gr[..] != er[1.min(er.len())..] {
                        bad.lock().unwrap().push(format!("cloned FindIter/FindRevIter continued in thread {} diverged", t));
                    }
                });
            }
        });
        evals += 2 * threads.min(4) as u64;
    }
    for (i, _) in (0..evals).enumerate() {
        // iterator-clone continuations share one haystack: hash = (haystack, index)
        let h = if i < hashes.len() { hashes[i] } else { crate::util::hash_bytes(i as u64, &hay) };
        r.rep.mark(h, true);
    }
    r.rep.count("shared_object_calls", evals);
    for msg in bad.lock().unwrap().iter() {
        let case = Case::new(Api::new(Fam::Sub, Be::Top, 0, false, 1), &[], &[]);
        r.rep.fail("C15", "race-value", &case, Place::Heap, Place::Heap, msg, None);
    }
}
