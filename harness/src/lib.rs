//! wasm32 entry point: the same drivers, oracles and case language as the
//! native worker, compiled `no_std` + `alloc` for wasm32-unknown-unknown with
//! `+simd128`, run under node (V8). Output lines go to the host through the
//! imported `host_write`. A trap (out-of-bounds access past the end of linear
//! memory, `unreachable` from a panic) is caught by the host, which then asks
//! for the last recorded case through `vh_last_case`.
#![cfg(target_arch = "wasm32")]
#![no_std]
#![allow(clippy::too_many_arguments, clippy::type_complexity)]
#![allow(static_mut_refs)]
#![allow(dead_code)]

#[macro_use]
extern crate alloc;

pub mod host {
    #[link(wasm_import_module = "env")]
    extern "C" {
        fn host_write(ptr: *const u8, len: usize);
    }
    pub fn write_line(s: &str) {
        unsafe { host_write(s.as_ptr(), s.len()) }
    }
}

macro_rules! println {
    ($($t:tt)*) => {
        $crate::host::write_line(&alloc::format!($($t)*))
    };
}

mod allocmon;
mod args;
mod case;
mod dispatch;
mod exec;
mod gen;
mod hooks;
mod mem;
mod oracle;
mod p_bytes;
mod p_cfg;
mod p_iter;
mod p_misc;
mod p_res;
mod p_sub;
mod prelude;
mod rankers;
mod recipes;
mod report;
mod runner;
mod util;

use prelude::*;

#[global_allocator]
static GLOBAL: allocmon::Counting = allocmon::Counting;

#[panic_handler]
fn panic(info: &core::panic::PanicInfo) -> ! {
    // formatting may allocate; the allocator is a plain free list, so this is
    // fine even from inside a failed assertion
    let msg = format!("{}", info);
    println!("{{\"t\":\"wasm-panic\",\"msg\":\"{}\"}}", util::json_escape(&msg));
    core::arch::wasm32::unreachable()
}

/// Scratch memory for the host to write the argument string into.
#[no_mangle]
pub extern "C" fn vh_alloc(len: usize) -> *mut u8 {
    let mut v: Vec<u8> = Vec::with_capacity(len.max(1));
    let p = v.as_mut_ptr();
    core::mem::forget(v);
    p
}

/// Run one worker command: the argument string is `cmd key=value ...`,
/// words separated by '\n'.
#[no_mangle]
pub extern "C" fn vh_run(ptr: *const u8, len: usize) -> i32 {
    let bytes = unsafe { core::slice::from_raw_parts(ptr, len) };
    let text = core::str::from_utf8(bytes).unwrap_or("");
    let words = text.split('\n').filter(|w| !w.is_empty()).map(|w| w.to_string());
    let a = args::Args::from_words(words);
    dispatch::dispatch(&a)
}

/// After a trap: emit the case that was being executed.
#[no_mangle]
pub extern "C" fn vh_last_case() {
    println!("{{\"t\":\"last\",{}}}", report::last_case_json());
}
