//! Resource monitors: C13 (step counter against a linear bound) and C17
//! (counting allocator armed around each call).

#[allow(unused_imports)]
use crate::prelude::*;
use crate::case::{Api, Be, Fam};
use crate::mem::Place;
use crate::p_sub::{self, judge_allocs, judge_steps, level};
use crate::recipes;
use crate::runner::{Runner, Tier};

/// C13
pub fn linear_work(r: &mut Runner) {
    if !crate::hooks::ENABLED {
        r.rep.note("hooks disabled: step counter unavailable");
        return;
    }
    let lvl = level(r);
    let ms: Vec<usize> = match lvl {
        0 => vec![2, 33],
        1 => vec![2, 3, 8, 31, 32, 33, 64, 256, 2048],
        _ => vec![2, 3, 8, 16, 31, 32, 33, 34, 64, 255, 256, 257, 2048, 16384, 65536],
    };
    let ns: Vec<usize> = match lvl {
        0 => vec![300],
        1 => vec![4096, 32768, 262144],
        _ => vec![4096, 32768, 262144, 1 << 20, 1 << 23],
    };
    let apis: Vec<Api> = vec![
        Api::new(Fam::Sub, Be::Top, 0, false, 1),
        Api::new(Fam::Sub, Be::Top, 0, true, 1),
        Api::new(Fam::Sub, Be::Top, 0, false, 0),
        Api::new(Fam::Sub, Be::Top, 0, true, 0),
        Api::new(Fam::Sub, Be::Top, 0, false, 2),
        Api::new(Fam::SubIter, Be::Top, 0, false, 1),
        Api::new(Fam::SubIter, Be::Top, 0, true, 1),
    ];
    let mut unit = 0u64;
    for fam in 0..recipes::FAMILIES.len() {
        for &m in &ms {
            for variant in 0..2u64 {
                unit += 1;
                if !r.mine(unit) {
                    continue;
                }
                let mut prev: Vec<Option<f64>> = vec![None; apis.len()];
                for &n in &ns {
                    if m * 2 > n {
                        continue;
                    }
                    // the wasm worker has a fixed heap: keep the multi-megabyte
                    // sizes to the native stages
                    if cfg!(target_arch = "wasm32") && n > (1 << 20) {
                        continue;
                    }
                    let (hay, ndl) = recipes::build(fam, m, n, variant);
                    r.recipe = Some(recipes::recipe(fam, m, n, variant));
                    for (ai, &api) in apis.iter().enumerate() {
                        // the largest sizes: one-shot searches and one traversal only
                        if n >= 1 << 23 && ai >= 2 && ai != 5 {
                            continue;
                        }
                        let ok = r.run0(api, &hay, &ndl, Place::Heap, Place::Heap, true);
                        if !ok {
                            continue;
                        }
                        let held = judge_steps(r, hay.len(), ndl.len());
                        let ratio = r.ctx.steps as f64 / (hay.len() + ndl.len()) as f64;
                        r.rep.count(&format!("family_{}_calls", recipes::FAMILIES[fam]), 1);
                        r.rep.set_max(
                            &format!("max_ratio_milli_family_{}", recipes::FAMILIES[fam]),
                            (ratio * 1000.0) as u64,
                        );
                        // growth from one size to the next is recorded as
                        // information only: members of one family at
                        // different sizes are not homogeneous enough (the
                        // truncation point moves) for it to be a verdict
                        if held {
                            if let Some(p) = prev[ai] {
                                if p > 0.01 {
                                    r.rep.set_max("max_growth_factor_milli", (ratio / p * 1000.0) as u64);
                                }
                            }
                        }
                        prev[ai] = Some(ratio);
                    }
                    r.recipe = None;
                    if r.stop() {
                        return;
                    }
                }
            }
        }
    }
    // mid-size structured pairs and the exhaustive small strings: the
    // constant term
    let mut run_pair = |r: &mut Runner, hay: &[u8], ndl: &[u8], k: u64| {
        let api = [
            Api::new(Fam::Sub, Be::Top, 0, false, 1),
            Api::new(Fam::Sub, Be::Top, 0, true, 1),
            Api::new(Fam::SubIter, Be::Top, 0, false, 1),
            Api::new(Fam::SubIter, Be::Top, 0, true, 1),
            Api::new(Fam::Sub, Be::Top, 0, false, 0),
        ][(k % 5) as usize];
        if r.run0(api, hay, ndl, Place::Heap, Place::Heap, !hay.is_empty() && !ndl.is_empty()) {
            judge_steps(r, hay.len(), ndl.len());
        }
    };
    let (nmax, hmax) = match lvl {
        0 => (3, 5),
        1 => (6, 13),
        _ => (8, 18),
    };
    p_sub::exhaustive_pairs(r, b"ab", nmax, hmax, &[(0, 0)], &mut run_pair);
    p_sub::structured_pairs(r, if lvl >= 2 { 5000 } else { 700 }, &mut run_pair);
    p_sub::prefilter_history(r, &mut run_pair);
}

/// C17
pub fn no_alloc(r: &mut Runner) {
    r.ctx.count_allocs = true;
    let lvl = level(r);
    // substring searching, every strategy of the meta searcher
    {
        let mut run_pair = |r: &mut Runner, hay: &[u8], ndl: &[u8], k: u64| {
            let hp = [Place::Heap, Place::GuardR, Place::Arena(3)][(k % 3) as usize];
            for rev in [false, true] {
                for form in [0u8, 1, 2] {
                    if r.run0(Api::new(Fam::Sub, Be::Top, 0, rev, form), hay, ndl, hp, Place::Heap, true) {
                        judge_allocs(r);
                    }
                }
                if r.run0(Api::new(Fam::SubIter, Be::Top, 0, rev, 0), hay, ndl, hp, Place::Heap, true) {
                    judge_allocs(r);
                }
                if r.run0(Api::new(Fam::SubIter, Be::Top, 0, rev, 1), hay, ndl, hp, Place::Heap, true) {
                    judge_allocs(r);
                }
            }
            // custom ranker, both prefilter settings
            let a = [k % 11, k, k % 2, 0];
            if r.run(Api::new(Fam::Sub, Be::Top, 0, false, 4), hay, ndl, a, &[], hp, Place::Heap, true) {
                judge_allocs(r);
            }
            // building blocks that must not allocate
            for rev in [false, true] {
                for form in [0u8, 1] {
                    if hay.len() * ndl.len().max(1) > 1 << 16 && form == 1 {
                        continue;
                    }
                    if r.run0(Api::new(Fam::Block, Be::All, 0, rev, form), hay, ndl, hp, Place::Heap, true) {
                        judge_allocs(r);
                    }
                }
            }
            for be in crate::exec::vector_backends() {
                if r.run(Api::new(Fam::Block, be, 0, false, 4), hay, ndl, [256, 0, 0, 0], &[], hp, Place::Heap, true) {
                    judge_allocs(r);
                }
                if r.run(Api::new(Fam::Pre, be, 0, false, 0), hay, ndl, [256, 0, 0, 0], &[], hp, Place::Heap, true) {
                    judge_allocs(r);
                }
            }
            // positive controls: the owning conversions and Shift-Or
            #[cfg(feature = "alloc")]
            if k % 16 == 0 && !ndl.is_empty() {
                r.run(Api::new(Fam::SubIter, Be::Top, 0, false, 2), hay, ndl, [0; 4], &[], hp, Place::Heap, true);
                let oa = r.ctx.owning_allocs;
                r.rep.count("control_into_owned_calls", 1);
                r.rep.count("control_into_owned_allocs", oa);
                judge_allocs(r);
                if ndl.len() <= 15 {
                    r.run0(Api::new(Fam::Block, Be::All, 0, false, 3), hay, ndl, hp, Place::Heap, true);
                    let oa = r.ctx.owning_allocs;
                    r.rep.count("control_shiftor_calls", 1);
                    r.rep.count("control_shiftor_allocs", oa);
                    judge_allocs(r);
                }
            }
        };
        let (nmax, hmax) = match lvl {
            0 => (2, 4),
            1 => (4, 9),
            _ => (5, 11),
        };
        p_sub::exhaustive_pairs(r, b"ab", nmax, hmax, &[(0, 0), (70, 20)], &mut run_pair);
        p_sub::structured_pairs(r, if lvl >= 2 { 1100 } else { 320 }, &mut run_pair);
        p_sub::prefilter_history(r, &mut run_pair);
    }
    // finder reuse histories (as_ref / clone / into_owned, then more searches
    // and iterations through the owned finder) and substring iterators with
    // clone / into_owned mid-way: only the owning conversions may allocate
    r.alloc_verdict = true;
    crate::p_iter::purity(r);
    crate::p_iter::sub_iters(r);
    r.alloc_verdict = false;
    // memchr family and its iterators
    let mut buf = Vec::new();
    let nd = [b'a', 0x80, 0xFF];
    let lens: Vec<usize> = match r.tier {
        Tier::Miri => vec![0, 5, 17, 40, 70],
        Tier::Quick => (0..=140).collect(),
        Tier::Thorough => (0..=451).collect(),
    };
    let mut unit = 10_000_000u64;
    for &len in &lens {
        unit += 1;
        if !r.mine(unit) {
            continue;
        }
        for p in [None, Some(0usize), Some(len / 2), Some(len.saturating_sub(1))] {
            if p.map_or(false, |p| p >= len) {
                continue;
            }
            for rev in [false, true] {
                for api in crate::p_bytes::byte_apis(r, rev, true) {
                    crate::p_bytes::build_hay(&mut buf, len, p, &nd[..api.n as usize], rev, len % 4);
                    if r.run0(api, &buf, &nd[..api.n as usize], Place::Heap, Place::Heap, len > 0) {
                        judge_allocs(r);
                    }
                }
            }
            // count and iterator histories
            crate::p_bytes::build_hay(&mut buf, len, p, &nd[..1], false, 2);
            for be in [Be::Top].into_iter().chain(crate::exec::typed_backends()) {
                for form in 0..3 {
                    if r.run0(Api::new(Fam::Count, be, 1, false, form), &buf, &nd, Place::Heap, Place::Heap, len > 0) {
                        judge_allocs(r);
                    }
                }
                for n in 1..=3u8 {
                    if r.run(Api::new(Fam::IterHist, be, n, false, 0), &buf, &nd, [0; 4], b"nbknnbck", Place::Heap, Place::Heap, len > 0) {
                        judge_allocs(r);
                    }
                }
            }
        }
        if r.stop() {
            return;
        }
    }
}
