//! Drivers for C18 (is_equal & co), C19 (pair selection), the C14 panic
//! exactness sweep and the C05 mismatched-needle sweep.

#[allow(unused_imports)]
use crate::prelude::*;
use crate::case::{Api, Be, Fam};
use crate::exec::vector_backends;
use crate::gen;
use crate::mem::Place;
use crate::p_sub::{index_pairs, level};
use crate::rankers::RANKER_NAMES;
use crate::runner::{Runner, Tier};

/// C18
pub fn eq_fns(r: &mut Runner) {
    let maxlen = match r.tier {
        Tier::Miri => 24usize,
        Tier::Quick => 64,
        Tier::Thorough => 80,
    };
    let mut x: Vec<u8> = Vec::new();
    let mut y: Vec<u8> = Vec::new();
    let mut unit = 0u64;
    // placement pairs: every alignment of x and y mod 8, plus guard pages
    let mut pps: Vec<(Place, Place)> = Vec::new();
    for ax in 0..8u8 {
        for ay in 0..8u8 {
            pps.push((Place::Arena(ax), Place::Arena(ay)));
        }
    }
    pps.push((Place::GuardR, Place::GuardR));
    pps.push((Place::GuardL, Place::GuardL));
    pps.push((Place::GuardR, Place::GuardL));
    pps.push((Place::GuardL, Place::GuardR));
    pps.push((Place::Heap, Place::Heap));
    let thin = r.tier != Tier::Thorough;
    for len in 0..=maxlen {
        unit += 1;
        if !r.mine(unit) {
            continue;
        }
        x.clear();
        for i in 0..len {
            x.push((i as u8).wrapping_mul(37).wrapping_add(11));
        }
        // variants of y: equal, one differing byte at every position (three
        // different flipped bits), two differing bytes
        let mut variants: Vec<Vec<u8>> = vec![x.clone()];
        for p in 0..len {
            for bit in [0x01u8, 0x10, 0x80] {
                let mut v = x.clone();
                v[p] ^= bit;
                variants.push(v);
            }
        }
        for p in 0..len.saturating_sub(1) {
            let mut v = x.clone();
            v[p] ^= 0x04;
            v[len - 1] ^= 0x40;
            variants.push(v);
        }
        for (vi, v) in variants.iter().enumerate() {
            for (pi, &(px, py)) in pps.iter().enumerate() {
                if thin && pi < 64 && (pi + vi + len) % 8 != 0 {
                    continue;
                }
                if r.tier == Tier::Miri && (pi + vi) % 5 != 0 {
                    continue;
                }
                for form in [0u8, 3] {
                    r.run0(Api::new(Fam::EqFn, Be::All, 0, false, form), &x, v, px, py, len > 0);
                }
            }
        }
        // different lengths
        for dl in [1usize, 2, 3, 4, 5, 8] {
            if dl <= len {
                y.clear();
                y.extend_from_slice(&x[..len - dl]);
                r.run0(Api::new(Fam::EqFn, Be::All, 0, false, 0), &x, &y, Place::GuardR, Place::GuardR, true);
                r.run0(Api::new(Fam::EqFn, Be::All, 0, false, 0), &y, &x, Place::GuardL, Place::GuardR, true);
            }
        }
        if r.stop() {
            return;
        }
    }
    // is_prefix / is_suffix: all (hlen, nlen) with a difference at each
    // needle position, and nlen > hlen
    let hmax = match r.tier {
        Tier::Miri => 12usize,
        Tier::Quick => 28,
        Tier::Thorough => 40,
    };
    for hlen in 0..=hmax {
        unit += 1;
        if !r.mine(unit) {
            continue;
        }
        x.clear();
        for i in 0..hlen {
            x.push((i as u8).wrapping_mul(29).wrapping_add(3));
        }
        for nlen in 0..=hmax + 2 {
            for form in [1u8, 2] {
                let take = nlen.min(hlen);
                // the true prefix / suffix, padded if longer than the haystack
                y.clear();
                if form == 1 {
                    y.extend_from_slice(&x[..take]);
                    y.resize(nlen, 0xEE);
                } else {
                    y.resize(nlen - take, 0xEE);
                    y.extend_from_slice(&x[hlen - take..]);
                }
                let pls = [(Place::GuardR, Place::GuardR), (Place::GuardL, Place::GuardL), (Place::Arena(3), Place::Arena(6))];
                let (px, py) = pls[(hlen + nlen) % 3];
                r.run0(Api::new(Fam::EqFn, Be::All, 0, false, form), &x, &y, px, py, hlen > 0 && nlen > 0);
                let step = if r.tier == Tier::Miri { 3 } else { 1 };
                let mut p = 0;
                while p < nlen {
                    let mut v = y.clone();
                    v[p] ^= 0x21;
                    r.run0(Api::new(Fam::EqFn, Be::All, 0, false, form), &x, &v, px, py, true);
                    p += step;
                }
            }
        }
    }
}

/// Aliased operands: both slices are windows of one buffer. Same start with
/// different lengths, the empty slice at the end of one half against the other
/// half, identical windows, and windows shifted by 1..=16 over periodic content
/// (where the shifted windows may really be equal).
pub fn eq_fns_aliased(r: &mut Runner) {
    let maxlen = match r.tier {
        Tier::Miri => 20usize,
        Tier::Quick => 40,
        Tier::Thorough => 72,
    };
    let mut buf: Vec<u8> = Vec::new();
    let mut unit = 1000u64;
    let miri = r.tier == Tier::Miri;
    for content in 0..4usize {
        if miri && content % 2 == 1 {
            continue;
        }
        for blen in 0..=maxlen {
            unit += 1;
            if !r.mine(unit) {
                continue;
            }
            buf.clear();
            for i in 0..blen {
                buf.push(match content {
                    0 => (i as u8).wrapping_mul(37).wrapping_add(11),
                    1 => b'a',
                    2 => [b'a', b'b'][i % 2],
                    _ => [b'x', b'y', b'z', b'x', b'y'][i % 5],
                });
            }
            let places = [Place::GuardR, Place::GuardL, Place::Arena(0), Place::Arena(5), Place::Heap];
            let hp = places[(blen + content) % places.len()];
            let step = if miri { 7 } else { 1 };
            let mut xo = 0;
            while xo <= blen {
                for xl in [0usize, 1, 2, 7, 8, 9, 16, 17, blen - xo] {
                    if miri && ![0, 1, 8].contains(&xl) && xl != blen - xo {
                        continue;
                    }
                    if xo + xl > blen {
                        continue;
                    }
                    // y windows: same start with every other length class,
                    // shifted starts, the split_at halves
                    let mut ys: Vec<(usize, usize)> = Vec::new();
                    for yl in [0usize, 1, xl.saturating_sub(1), xl, xl + 1, xl + 8, blen - xo] {
                        if xo + yl <= blen {
                            ys.push((xo, yl));
                        }
                    }
                    for d in [1usize, 2, 5, 8, 16] {
                        if miri && d != 1 && d != 8 {
                            continue;
                        }
                        if xo + d + xl <= blen {
                            ys.push((xo + d, xl));
                        }
                        if xo >= d {
                            ys.push((xo - d, xl.min(blen - (xo - d))));
                        }
                    }
                    ys.push((xo + xl, blen - xo - xl)); // right half after x
                    ys.push((xo + xl, 0));
                    for &(yo, yl) in &ys {
                        for form in [4u8, 5, 6, 7] {
                            r.run(
                                Api::new(Fam::EqFn, Be::All, 0, false, form),
                                &buf,
                                &[],
                                [yo as u64, yl as u64, xo as u64, xl as u64],
                                &[],
                                hp,
                                Place::Heap,
                                xl != yl || xl > 0,
                            );
                        }
                    }
                }
                xo += step;
            }
            if r.stop() {
                return;
            }
        }
    }
}

/// Needle shapes for pair selection.
fn pair_needles(len: usize, r: &mut Runner, out: &mut Vec<Vec<u8>>, full: bool) {
    out.clear();
    out.push(vec![b'a'; len]); // single letter
    out.push((0..len).map(|i| if i % 2 == 0 { b'a' } else { b'b' }).collect());
    out.push((0..len).map(|i| i as u8).collect()); // all distinct (cyclic)
    out.push((0..len).map(|i| 255 - (i as u8)).collect());
    let mut x = vec![0u8; len];
    r.rng.fill(&mut x, &[]);
    out.push(x);
    let mut x = vec![0u8; len];
    r.rng.fill(&mut x, b"et ");
    out.push(x);
    if len >= 2 {
        // one odd byte at position k
        let ks: Vec<usize> = if full {
            (0..len.min(261)).collect()
        } else {
            vec![0, 1, len / 2, len - 1, len.min(254), len.min(255) - 1, len.min(256) - 1]
        };
        for k in ks {
            if k < len {
                let mut x = vec![b'e'; len];
                x[k] = b'Z';
                out.push(x);
            }
        }
    }
}

/// C19
pub fn pair_selection(r: &mut Runner) {
    let full = r.tier == Tier::Thorough;
    let lens: Vec<usize> = match r.tier {
        Tier::Miri => vec![0, 1, 2, 3, 17, 254, 255, 256, 300],
        Tier::Quick => (0..=70).chain([100, 200, 253, 254, 255, 256, 257, 258, 300, 400, 600]).collect(),
        Tier::Thorough => (0..=600).collect(),
    };
    let nrank = RANKER_NAMES.len() as u64;
    let mut needles: Vec<Vec<u8>> = Vec::new();
    let mut unit = 0u64;
    for &len in &lens {
        unit += 1;
        if !r.mine(unit) {
            continue;
        }
        pair_needles(len, r, &mut needles, full && len <= 300);
        let nds = needles.clone();
        for (k, nd) in nds.iter().enumerate() {
            let np = [Place::Heap, Place::GuardR, Place::GuardL][(k + len) % 3];
            r.run0(Api::new(Fam::PairSel, Be::All, 0, false, 0), &[], nd, Place::Heap, np, len >= 2);
            for rid in 0..nrank {
                if !full && (rid + k as u64 + len as u64) % 3 != 0 && k >= 6 {
                    continue;
                }
                r.run(Api::new(Fam::PairSel, Be::All, 0, false, 1), &[], nd, [rid, r.seed ^ (len as u64 * 31 + k as u64), 0, 0], &[], Place::Heap, np, len >= 2);
            }
        }
        if r.stop() {
            return;
        }
    }
    // with_indices for all 65536 (a, b) on selected needle lengths, and the
    // finders' pair()
    let wl: Vec<usize> = match r.tier {
        Tier::Miri => vec![0, 2, 300],
        _ => vec![0, 1, 2, 3, 17, 100, 254, 255, 256, 300],
    };
    let mut bes = vec![Be::All];
    bes.extend(vector_backends());
    for &len in &wl {
        let nd: Vec<u8> = (0..len).map(|i| (i % 251) as u8).collect();
        let stepa = if r.tier == Tier::Miri { 37 } else { 1 };
        let mut a = 0u64;
        while a < 256 {
            unit += 1;
            if r.mine(unit) {
                let mut b = 0u64;
                while b < 256 {
                    r.run(Api::new(Fam::PairSel, Be::All, 0, false, 2), &[], &nd, [a, b, 0, 0], &[], Place::Heap, Place::Heap, true);
                    let near = |v: u64| v <= 2 || (v + 2 >= len as u64 && v <= len as u64 + 1) || v >= 253;
                    if (near(a) && near(b)) || (full && (a * 7 + b * 13) % 11 == 0) {
                        for &be in &bes {
                            r.run(Api::new(Fam::PairSel, be, 0, false, 3), &[], &nd, [a, b, 0, 0], &[], Place::Heap, Place::GuardR, true);
                        }
                    }
                    b += stepa;
                }
            }
            a += stepa;
        }
    }
}

/// C14: the documented packed-pair panic, exactly.
pub fn panic_exactness(r: &mut Runner) {
    let lvl = level(r);
    let nlens: Vec<usize> = match lvl {
        0 => vec![2, 17, 40],
        1 => vec![2, 3, 5, 8, 15, 16, 17, 24, 31, 32, 33, 40, 255, 300],
        _ => (2..=40).chain([64, 100, 255, 256, 300]).collect(),
    };
    let mut unit = 0u64;
    let mut hay: Vec<u8> = Vec::new();
    for &n in &nlens {
        let ndl: Vec<u8> = (0..n).map(|i| b"abcdefghij"[(i * 3 + i / 5) % 10]).collect();
        let mut pairs: Vec<(u64, u64)> = vec![(256, 0), (0, 1), (n as u64 - 1, 0)];
        if n >= 255 {
            pairs.push((254, 253));
            pairs.push((1, 254));
        }
        if n >= 4 {
            pairs.push((n as u64 / 2, n as u64 / 2 - 1));
        }
        for &(a0, a1) in &pairs {
            unit += 1;
            if !r.mine(unit) {
                continue;
            }
            let maxidx = if a0 >= 256 { n - 1 } else { a0.max(a1) as usize };
            let top = n.max(maxidx + 32) + 40;
            let hls: Vec<usize> = if lvl == 0 {
                vec![0, n - 1, n, n + 14, n + 15, n + 16, n + 17, maxidx + 15, maxidx + 16, maxidx + 17, top]
            } else {
                (0..=top).collect()
            };
            for hl in hls {
                for variant in 0..2 {
                    hay.clear();
                    hay.resize(hl, b'z');
                    if variant == 1 && hl >= n {
                        let d = hl - n;
                        hay[d..].copy_from_slice(&ndl);
                    }
                    for be in vector_backends() {
                        for form in 0..2u8 {
                            let hp = if hl % 2 == 0 { Place::GuardR } else { Place::GuardL };
                            r.run(Api::new(Fam::PPanic, be, 0, false, form), &hay, &ndl, [a0, a1, 0, 0], &[], hp, Place::GuardR, true);
                        }
                    }
                }
            }
            if r.stop() {
                return;
            }
        }
    }
}

/// C05: safe calls whose needle differs from the construction needle, and
/// haystacks below the minimum length. Only faults / tool reports count.
pub fn mismatched(r: &mut Runner) {
    let lvl = level(r);
    let mut grng = crate::util::Rng::new(r.seed ^ 0x0505);
    let nlens: Vec<usize> = match lvl {
        0 => vec![2, 5, 17, 33],
        1 => vec![0, 1, 2, 3, 5, 8, 16, 17, 31, 32, 33, 40, 64, 100, 260],
        _ => (0..=40).chain([47, 48, 63, 64, 65, 100, 200, 254, 255, 256, 260, 300]).collect(),
    };
    let mut unit = 0u64;
    let mut hay: Vec<u8> = Vec::new();
    for &n in &nlens {
        let ndl: Vec<u8> = (0..n).map(|i| b"abcab"[(i + i / 7) % 5]).collect();
        // the "other" needle: shorter, longer, same length different bytes
        let mut others: Vec<Vec<u8>> = Vec::new();
        for ol in [0usize, 1, n.saturating_sub(1), n, n + 1, n + 5, 2 * n + 3, n / 2, 33, 70] {
            let mut o: Vec<u8> = (0..ol).map(|i| b"abcab"[(i * 2 + 1) % 5]).collect();
            others.push(o.clone());
            if ol > 0 {
                // agrees with the construction needle as far as possible
                for (i, b) in o.iter_mut().enumerate() {
                    if i < n {
                        *b = ndl[i];
                    }
                }
                others.push(o);
            }
        }
        let hls: Vec<usize> = match lvl {
            0 => vec![0, 7, 16, 33, 70],
            1 => (0..=70).step_by(3).chain([15, 16, 17, 31, 32, 33, 64, 65, 100, 130, n + 16, n + 32, 300]).collect(),
            _ => (0..=130).chain([n + 16, n + 17, n + 32, n + 33, 200, 300, 520]).collect(),
        };
        for (oi, other) in others.iter().enumerate() {
            unit += 1;
            if !r.mine(unit) {
                continue;
            }
            let pairs = if n >= 2 { index_pairs(n, r, false) } else { vec![(256u64, 0u64)] };
            for &hl in &hls {
                // haystacks made of both needles' bytes so that candidates
                // and partial matches abound, with the search needle planted
                // at the very end / very start now and then
                gen::background(&mut hay, hl, if hl % 2 == 0 { &ndl } else { other }, 5, &mut grng);
                if other.len() <= hl && hl % 3 == 0 {
                    let d = hl - other.len();
                    hay[d..].copy_from_slice(other);
                }
                if ndl.len() <= hl && hl % 3 == 1 {
                    hay[..ndl.len()].copy_from_slice(&ndl);
                }
                // under Miri keep packed-pair `find` needles no longer than
                // the haystack (pointer arithmetic below the allocation is
                // reported by Miri although nothing is read: outside C05)
                let pp_ok = !cfg!(miri) || other.len() <= hl;
                let combos = [
                    (Place::GuardR, Place::GuardR),
                    (Place::GuardL, Place::GuardL),
                    (Place::GuardR, Place::GuardL),
                    (Place::GuardL, Place::GuardR),
                ];
                for (ci, &(hp, np)) in combos.iter().enumerate() {
                    if lvl <= 1 && (ci + hl + oi) % 2 != 0 {
                        continue;
                    }
                    // the search needle travels in `ops`; place it next to a
                    // guard page as well by swapping roles: ndl arena holds
                    // the construction needle
                    for rev in [false, true] {
                        r.run(Api::new(Fam::Mismatch, Be::All, 0, rev, 0), &hay, &ndl, [0; 4], other, hp, np, true);
                        r.run(Api::new(Fam::Mismatch, Be::All, 0, rev, 1), &hay, &ndl, [0; 4], other, hp, np, true);
                    }
                    if pp_ok {
                        for be in vector_backends() {
                            let (a0, a1) = pairs[(hl + ci) % pairs.len()];
                            r.run(Api::new(Fam::Mismatch, be, 0, false, 4), &hay, &ndl, [a0, a1, 0, 0], other, hp, np, true);
                            r.run(Api::new(Fam::Mismatch, be, 0, false, 5), &hay, &ndl, [a0, a1, 0, 0], other, hp, np, true);
                        }
                    }
                }
            }
            if r.stop() {
                return;
            }
        }
    }
}
