//! What `std`'s prelude gives for free, for the modules that are also
//! compiled into the `no_std` wasm module.

#[cfg(target_arch = "wasm32")]
pub use alloc::{
    borrow::ToOwned,
    boxed::Box,
    format,
    string::{String, ToString},
    vec,
    vec::Vec,
};
