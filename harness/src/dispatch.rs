//! Command dispatch shared by the native binary and the wasm module.

use crate::args::Args;
use crate::prelude::*;
use crate::runner::{Runner, Tier};
#[cfg(not(target_arch = "wasm32"))]
use crate::p_conc;
use crate::{case, exec, hooks, mem, p_bytes, p_cfg, p_iter, p_misc, p_res, p_sub, recipes, report};

pub fn dispatch(args: &Args) -> i32 {
    let shard0 = args.num("shard", 0);
    // force=auto: derive the forced CPU level from the process index (C15)
    let force = if args.get("force") == Some("auto") {
        // half of the processes keep AVX2, a quarter each get SSE2-only and
        // the fallback
        [0u32, 1, 0, 2][((shard0 / 6) % 4) as usize]
    } else {
        args.num("force", 0) as u32
    };
    hooks::force_cpu(force);
    let tier = match args.get("tier").unwrap_or("quick") {
        "thorough" => Tier::Thorough,
        "miri" => Tier::Miri,
        _ => Tier::Quick,
    };
    let seed = args.num("seed", 1);
    let shard = args.num("shard", 0);
    let nshards = args.num("nshards", 1);
    let config = args.get("config").unwrap_or("rel").to_string();
    let bitmap_path = args.get("bitmap").map(|s| s.to_string());
    let cmd = args.cmd.clone();
    println!(
        "{{\"t\":\"hello\",\"cmd\":\"{}\",\"hooks\":{},\"force\":{},\"avx2\":{},\"sse2\":{},\"debug_assertions\":{},\"miri\":{}}}",
        cmd,
        hooks::ENABLED,
        force,
        exec::be_available(case::Be::Avx2),
        exec::be_available(case::Be::Sse2),
        cfg!(debug_assertions),
        cfg!(miri)
    );
    let mk = |prop: &str| {
        let mut r = Runner::new(
            prop,
            &config,
            tier,
            seed,
            shard,
            nshards,
            force,
            bitmap_path.is_some(),
        );
        r.budget = args.fnum("budget", 1.0);
        r.only = args.get("only").unwrap_or("").to_string();
        if args.num("trace", 0) != 0 {
            r.trace = true;
        }
        if args.get("trace") == Some("0") {
            r.trace = false;
        }
        if args.get("trace") == Some("full") {
            r.trace = true;
            r.cheap_trace = false;
        }
        if let Some(k) = args.get("only_idx") {
            r.only_idx = k.parse().ok();
            r.trace = true;
        }
        r.judge_panics = args.num("panics", 1) != 0;
        if let Some(p) = args.get("place") {
            r.force_place = Some(mem::Place::parse(p));
        }
        r
    };
    match cmd.as_str() {
        "selftest-fault" => {
            // liveness proof of the guard-page detector: read one byte past
            // a guard-right slice; the reporter must fire and exit 97
            let mut r = mk("C05");
            let data = [7u8; 32];
            let ph = r.hay_arena.place(&data, mem::Place::GuardR);
            let case = case::Case::new(
                case::Api::new(case::Fam::Byte, case::Be::Top, 1, false, 0),
                ph,
                &data[..3],
            );
            report::set_last("C05", &case, mem::Place::GuardR, mem::Place::Heap, 0);
            let p = ph.as_ptr().wrapping_add(ph.len());
            let v = unsafe { core::ptr::read_volatile(p) };
            println!("{{\"t\":\"selftest-no-fault\",\"value\":{}}}", v);
        }
        "noop" => {
            println!("{{\"t\":\"noop\"}}");
        }
        "replay" => {
            let path = args.get("file").unwrap_or("");
            return replay_file(path, &config);
        }
        "C01" => {
            let mut r = mk("C01");
            p_bytes::find_grid(&mut r, false);
            r.rep.finish(bitmap_path.as_deref());
        }
        "C02" => {
            let mut r = mk("C02");
            p_bytes::find_grid(&mut r, true);
            r.rep.finish(bitmap_path.as_deref());
        }
        "C03" | "C04" => {
            let mut r = mk(&cmd);
            p_sub::meta_search(&mut r, cmd == "C04");
            r.rep.finish(bitmap_path.as_deref());
        }
        "C05" => {
            // every safe entry point next to unmapped pages; which families
            // run is selected by `part` so the orchestrator can spread them
            let mut r = mk(args.get("as").unwrap_or("C05"));
            r.judge_values = args.num("judge", 0) != 0;
            r.judge_panics = args.num("panics", 0) != 0;
            match args.get("part").unwrap_or("mismatch") {
                "mismatch" => p_misc::mismatched(&mut r),
                "bytes" => {
                    p_bytes::find_grid(&mut r, false);
                    p_bytes::find_grid(&mut r, true);
                    p_iter::counting(&mut r);
                }
                "iters" => {
                    p_iter::byte_iters(&mut r);
                    p_iter::sub_iters(&mut r);
                }
                "sub" => {
                    p_sub::meta_search(&mut r, false);
                    p_sub::meta_search(&mut r, true);
                }
                "blocks" => {
                    p_sub::blocks(&mut r);
                    p_sub::prefilters(&mut r, false);
                }
                "misc" => {
                    p_misc::eq_fns(&mut r);
                    p_misc::eq_fns_aliased(&mut r);
                    p_misc::pair_selection(&mut r);
                    p_misc::panic_exactness(&mut r);
                    p_iter::purity(&mut r);
                }
                other => {
                    println!("{{\"t\":\"error\",\"msg\":\"unknown part {}\"}}", other);
                    return 2;
                }
            }
            r.flush_histograms();
            r.rep.finish(bitmap_path.as_deref());
        }
        "C06" => {
            let mut r = mk("C06");
            p_iter::byte_iters(&mut r);
            r.rep.finish(bitmap_path.as_deref());
        }
        "C07" => {
            let mut r = mk("C07");
            p_iter::counting(&mut r);
            r.rep.finish(bitmap_path.as_deref());
        }
        "C08" => {
            let mut r = mk("C08");
            p_iter::sub_iters(&mut r);
            r.rep.finish(bitmap_path.as_deref());
        }
        "C09" => {
            let mut r = mk("C09");
            p_cfg::transcript(&mut r, args.num("stride", 1), args.num("dump", 0), args.get("transcript"));
            r.rep.finish(bitmap_path.as_deref());
        }
        "C13" => {
            let mut r = mk("C13");
            p_res::linear_work(&mut r);
            r.rep.finish(bitmap_path.as_deref());
        }
        "C14" => {
            let mut r = mk("C14");
            p_misc::panic_exactness(&mut r);
            r.rep.finish(bitmap_path.as_deref());
        }
        "C15" => {
            let mut r = mk("C15");
            let mut t = args.num("threads", 4) as usize;
            if t == 0 {
                t = [2usize, 3, 4, 8, 16, 32][(shard % 6) as usize];
            }
            #[cfg(not(target_arch = "wasm32"))]
            p_conc::concurrent(&mut r, t);
            #[cfg(target_arch = "wasm32")]
            {
                let _ = t;
                r.rep.note("no threads on wasm32");
            }
            r.rep.finish(bitmap_path.as_deref());
        }
        "C16" => {
            let mut r = mk("C16");
            p_iter::purity(&mut r);
            r.rep.finish(bitmap_path.as_deref());
        }
        "C17" => {
            let mut r = mk("C17");
            p_res::no_alloc(&mut r);
            r.rep.finish(bitmap_path.as_deref());
        }
        "C18" => {
            let mut r = mk("C18");
            p_misc::eq_fns(&mut r);
            p_misc::eq_fns_aliased(&mut r);
            r.rep.finish(bitmap_path.as_deref());
        }
        "C19" => {
            let mut r = mk("C19");
            p_misc::pair_selection(&mut r);
            r.rep.finish(bitmap_path.as_deref());
        }
        "C10" => {
            let mut r = mk("C10");
            p_sub::heuristics(&mut r);
            r.rep.finish(bitmap_path.as_deref());
        }
        "C11" => {
            let mut r = mk("C11");
            p_sub::prefilters(&mut r, false);
            r.rep.finish(bitmap_path.as_deref());
        }
        "C12" => {
            let mut r = mk("C12");
            p_sub::blocks(&mut r);
            r.rep.finish(bitmap_path.as_deref());
        }
        _ => {
            println!("{{\"t\":\"error\",\"msg\":\"unknown command {}\"}}", cmd);
            return 2;
        }
    }
    0
}

/// Re-run one recorded case. Exit code 1 (and a `fail` line) when it still
/// fails; a fault or Miri/ASan report kills the process as in the original.
#[cfg(not(target_arch = "wasm32"))]
fn replay_file(path: &str, config: &str) -> i32 {
    match std::fs::read_to_string(path) {
        Ok(s) => replay(&s, config),
        Err(e) => {
            println!("{{\"t\":\"error\",\"msg\":\"cannot read {}: {}\"}}", path, e);
            2
        }
    }
}

/// On wasm the orchestrator passes the case text itself in `file=`.
#[cfg(target_arch = "wasm32")]
fn replay_file(text: &str, config: &str) -> i32 {
    replay(text, config)
}

fn replay(src: &str, config: &str) -> i32 {
    let oc = match case::OwnedCase::parse(src) {
        Some(c) => c,
        None => {
            println!("{{\"t\":\"error\",\"msg\":\"cannot parse case\"}}");
            return 2;
        }
    };
    hooks::force_cpu(oc.force);
    let prop = if oc.prop.len() == 3 { oc.prop.clone() } else { "C00".to_string() };
    let mut r = Runner::new(&prop, config, Tier::Quick, 1, 0, 1, oc.force, false);
    r.trace = true;
    r.recipe = oc.recipe.clone();
    r.ctx.count_allocs = prop == "C17";
    let (hay, ndl) = match oc.recipe.as_deref() {
        Some(rec) => match recipes::rebuild(rec) {
            Some(x) => x,
            None => (oc.hay.clone(), oc.ndl.clone()),
        },
        None => (oc.hay.clone(), oc.ndl.clone()),
    };
    let ok = r.run(oc.api, &hay, &ndl, oc.a, &oc.ops, oc.hplace, oc.nplace, true);
    let extra_ok = props_post_check(&prop, &mut r, &hay, &ndl);
    println!(
        "{{\"t\":\"replayed\",\"ok\":{},\"steps\":{},\"allocs\":{},\"skipped\":{}}}",
        ok && extra_ok,
        r.ctx.steps,
        r.ctx.allocs,
        r.ctx.skipped
    );
    println!("{{\"t\":\"done\"}}");
    if ok && extra_ok {
        0
    } else {
        1
    }
}

/// Resource verdicts that are judged by the driver rather than by `exec`.
fn props_post_check(prop: &str, r: &mut Runner, hay: &[u8], ndl: &[u8]) -> bool {
    match prop {
        "C13" => p_sub::judge_steps(r, hay.len(), ndl.len()),
        "C17" => p_sub::judge_allocs(r),
        _ => true,
    }
}
