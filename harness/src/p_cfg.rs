//! C09: every backend / build configuration returns identical answers.
//!
//! Each configuration runs the same seeded case list through the entry points
//! that exist in every configuration (top-level dispatching functions,
//! `memmem`, `arch::all`), judges every case against the oracle, and writes a
//! transcript of (case index, result digest) pairs. The orchestrator compares
//! transcripts entry by entry across configurations.

#[allow(unused_imports)]
use crate::prelude::*;
use crate::case::{Api, Be, Fam};
use crate::mem::Place;
use crate::p_bytes::build_hay;
use crate::p_sub::{exhaustive_pairs, level, long_pairs, random_pairs, structured_pairs};
use crate::runner::{Runner, Tier};
#[cfg(not(target_arch = "wasm32"))]
use std::io::Write;

pub struct Tx {
    pub idx: u64,
    pub stride: u64,
    pub dump: u64,
    pub out: Vec<u64>,
    /// record every `keep`-th entry only (thorough tier: the list is 35x
    /// larger; every case is still judged by the oracle in every
    /// configuration, the transcript is the second line of defence)
    pub keep: u64,
    pub entries: u64,
    pub hash: u64,
}

impl Tx {
    fn take(&mut self) -> bool {
        self.idx += 1;
        self.idx % self.stride == 0
    }
    fn run(&mut self, r: &mut Runner, api: Api, hay: &[u8], ndl: &[u8], hp: Place, nt: bool) {
        if !self.take() {
            return;
        }
        let dump = self.idx == self.dump;
        if dump {
            r.trace = true;
        }
        r.run0(api, hay, ndl, hp, Place::Heap, nt);
        if dump {
            println!("{{\"t\":\"dumped\",\"idx\":{},\"digest\":{},\"skipped\":{}}}", self.idx, r.ctx.digest, r.ctx.skipped);
            r.trace = cfg!(miri);
        }
        if !r.ctx.skipped && self.idx % self.keep == 0 {
            self.out.push(self.idx);
            self.out.push(r.ctx.digest);
            self.entries += 1;
            self.hash = crate::util::hash_u64(crate::util::hash_u64(self.hash, self.idx), r.ctx.digest);
            // no file system on wasm: stream the pairs to the host as we go
            #[cfg(target_arch = "wasm32")]
            if self.out.len() >= 512 {
                self.flush_lines();
            }
        }
    }
}

impl Tx {
    #[cfg(target_arch = "wasm32")]
    fn flush_lines(&mut self) {
        let mut line = String::new();
        for pair in self.out.chunks(2) {
            line.push_str(&format!("{}:{},", pair[0], pair[1]));
        }
        println!("{{\"t\":\"tx\",\"pairs\":\"{}\"}}", line);
        self.out.clear();
    }
}

pub fn transcript(r: &mut Runner, stride: u64, dump: u64, path: Option<&str>) {
    let keep = if r.tier == Tier::Thorough { 16 } else { 1 };
    let mut tx = Tx { idx: 0, stride: stride.max(1), dump, out: Vec::new(), keep, entries: 0, hash: 0xC09 };
    let lvl = level(r);
    // byte searches and counts
    let maxlen = if r.tier == Tier::Thorough { 200 } else { 130 };
    let nsets: [[u8; 3]; 4] = [[b'a', 0x80, 0xFF], [0x00, 0x00, b'z'], [b'k', b'q', b'k'], [0xFF, 0x7F, 0x80]];
    let mut buf = Vec::new();
    let mut unit = 0u64;
    let lens: Vec<usize> = if r.tier == Tier::Miri {
        vec![0, 1, 7, 8, 9, 15, 16, 17, 31, 32, 33, 47, 63, 64, 65, 100, 129]
    } else {
        (0..=maxlen).collect()
    };
    for &len in &lens {
        unit += 1;
        if !r.mine(unit) {
            continue;
        }
        let pis: Vec<usize> = if r.tier == Tier::Miri {
            let mut v = vec![0, 1, 15, 16, 17, 31, 32, 33, len / 2, len.saturating_sub(17), len.saturating_sub(16), len.saturating_sub(2), len.saturating_sub(1), len];
            v.retain(|&x| x <= len);
            v.sort();
            v.dedup();
            v
        } else {
            (0..=len).collect()
        };
        for pi in pis {
            let nd = nsets[(len + pi) % 4];
            let p = if pi == len { None } else { Some(pi) };
            let place = [Place::Arena(0), Place::Arena(1), Place::Arena(15), Place::Arena(33), Place::GuardR, Place::GuardL][(len + pi) % 6];
            for n in 1..=3u8 {
                for rev in [false, true] {
                    build_hay(&mut buf, len, p, &nd[..n as usize], rev, (len + pi) % 4);
                    for be in [Be::Top, Be::All] {
                        tx.run(r, Api::new(Fam::Byte, be, n, rev, 0), &buf, &nd, place, len > 0);
                    }
                }
            }
            build_hay(&mut buf, len, p, &nd[..1], false, 2);
            tx.run(r, Api::new(Fam::Count, Be::Top, 1, false, 0), &buf, &nd, place, len > 0);
            tx.run(r, Api::new(Fam::Count, Be::All, 1, false, 0), &buf, &nd, place, len > 0);
        }
    }
    // long haystacks: thresholds far above the sweep (page size, 64 KiB)
    if r.tier != Tier::Miri {
        for (li, &len) in [4095usize, 4096, 4097, 8192, 8193, 65539].iter().enumerate() {
            unit += 1;
            if !r.mine(unit) {
                continue;
            }
            for (k, pi) in [0usize, 1, 31, len / 2, len - 33, len - 2, len - 1, len].into_iter().enumerate() {
                let nd = nsets[(li + k) % 4];
                let p = if pi == len { None } else { Some(pi) };
                let place = [Place::Arena(0), Place::Arena(1), Place::GuardR, Place::GuardL][(li + k) % 4];
                for n in 1..=3u8 {
                    for rev in [false, true] {
                        build_hay(&mut buf, len, p, &nd[..n as usize], rev, (li + k) % 4);
                        for be in [Be::Top, Be::All] {
                            tx.run(r, Api::new(Fam::Byte, be, n, rev, 0), &buf, &nd, place, true);
                        }
                    }
                }
                build_hay(&mut buf, len, p, &nd[..1], false, 2);
                tx.run(r, Api::new(Fam::Count, Be::Top, 1, false, 0), &buf, &nd, place, true);
                tx.run(r, Api::new(Fam::Count, Be::All, 1, false, 0), &buf, &nd, place, true);
            }
        }
    }
    // substring searches
    {
        let mut run_pair = |r: &mut Runner, hay: &[u8], ndl: &[u8], k: u64| {
            let hp = [Place::Heap, Place::GuardR, Place::GuardL, Place::Arena(7)][(k % 4) as usize];
            let nt = !hay.is_empty() && !ndl.is_empty();
            for rev in [false, true] {
                tx.run(r, Api::new(Fam::Sub, Be::Top, 0, rev, 0), hay, ndl, hp, nt);
                tx.run(r, Api::new(Fam::Sub, Be::Top, 0, rev, 1), hay, ndl, hp, nt);
            }
            tx.run(r, Api::new(Fam::Sub, Be::Top, 0, false, 2), hay, ndl, hp, nt);
            if hay.len() <= 2000 {
                tx.run(r, Api::new(Fam::SubIter, Be::Top, 0, false, 1), hay, ndl, hp, nt);
                tx.run(r, Api::new(Fam::SubIter, Be::Top, 0, true, 0), hay, ndl, hp, nt);
            }
            tx.run(r, Api::new(Fam::Block, Be::All, 0, false, 0), hay, ndl, hp, nt);
            tx.run(r, Api::new(Fam::Block, Be::All, 0, true, 0), hay, ndl, hp, nt);
        };
        let (nmax, hmax) = match lvl {
            0 => (2, 4),
            1 => (4, 9),
            _ => (5, 11),
        };
        exhaustive_pairs(r, b"ab", nmax, hmax, &[(0, 0), (70, 30)], &mut run_pair);
        structured_pairs(r, if lvl >= 2 { 1100 } else { 320 }, &mut run_pair);
        random_pairs(r, false, &mut run_pair);
        long_pairs(r, &mut run_pair);
    }
    // transcript hash + file
    r.rep.count("transcript_entries", tx.entries);
    println!("{{\"t\":\"extra\",\"key\":\"transcript\",\"value\":{{\"shard\":{},\"config\":\"{}\",\"force\":{},\"entries\":{},\"every\":{},\"hash\":\"{:016x}\"}}}}",
        r.shard, r.rep.config, r.force, tx.entries, tx.keep, tx.hash);
    #[cfg(target_arch = "wasm32")]
    {
        let _ = path;
        tx.flush_lines();
    }
    #[cfg(not(target_arch = "wasm32"))]
    if let Some(p) = path {
        if let Ok(mut f) = std::fs::File::create(p) {
            let bytes = unsafe { core::slice::from_raw_parts(tx.out.as_ptr() as *const u8, tx.out.len() * 8) };
            let _ = f.write_all(bytes);
        }
    }
}
