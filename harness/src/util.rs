//! PRNG, hashing, hex and JSON helpers (no dependencies).

#[allow(unused_imports)]
use crate::prelude::*;
#[derive(Clone)]
pub struct Rng(pub u64);

impl Rng {
    pub fn new(seed: u64) -> Rng {
        Rng(seed ^ 0x9E37_79B9_7F4A_7C15)
    }
    /// Derive an independent stream.
    pub fn fork(&mut self, tag: u64) -> Rng {
        let a = self.next();
        Rng::new(a ^ tag.wrapping_mul(0xD6E8_FEB8_6659_FD93))
    }
    #[inline]
    pub fn next(&mut self) -> u64 {
        // splitmix64
        self.0 = self.0.wrapping_add(0x9E37_79B9_7F4A_7C15);
        let mut z = self.0;
        z = (z ^ (z >> 30)).wrapping_mul(0xBF58_476D_1CE4_E5B9);
        z = (z ^ (z >> 27)).wrapping_mul(0x94D0_49BB_1331_11EB);
        z ^ (z >> 31)
    }
    #[inline]
    pub fn below(&mut self, n: u64) -> u64 {
        if n == 0 {
            0
        } else {
            self.next() % n
        }
    }
    #[inline]
    pub fn range(&mut self, lo: usize, hi_incl: usize) -> usize {
        lo + self.below((hi_incl - lo + 1) as u64) as usize
    }
    #[inline]
    pub fn byte(&mut self) -> u8 {
        self.next() as u8
    }
    #[inline]
    pub fn chance(&mut self, num: u64, den: u64) -> bool {
        self.below(den) < num
    }
    pub fn pick<'a, T>(&mut self, xs: &'a [T]) -> &'a T {
        &xs[self.below(xs.len() as u64) as usize]
    }
    pub fn fill(&mut self, buf: &mut [u8], alphabet: &[u8]) {
        for b in buf.iter_mut() {
            *b = if alphabet.is_empty() {
                self.byte()
            } else {
                alphabet[self.below(alphabet.len() as u64) as usize]
            };
        }
    }
}

/// A fast 64-bit hash (8 bytes at a time, multiply-mix).
#[inline]
pub fn hash_bytes(mut h: u64, data: &[u8]) -> u64 {
    const K: u64 = 0x9E37_79B9_7F4A_7C15;
    h ^= (data.len() as u64).wrapping_mul(K);
    let mut chunks = data.chunks_exact(8);
    for c in &mut chunks {
        let v = u64::from_le_bytes([
            c[0], c[1], c[2], c[3], c[4], c[5], c[6], c[7],
        ]);
        h = (h ^ v).wrapping_mul(K);
        h ^= h >> 29;
    }
    let mut tail = 0u64;
    for (i, &b) in chunks.remainder().iter().enumerate() {
        tail |= (b as u64) << (8 * i);
    }
    h = (h ^ tail).wrapping_mul(K);
    h ^ (h >> 32)
}

#[inline]
pub fn hash_u64(h: u64, v: u64) -> u64 {
    let x = (h ^ v).wrapping_mul(0xD6E8_FEB8_6659_FD93);
    x ^ (x >> 32)
}

pub fn hex(data: &[u8]) -> String {
    const H: &[u8; 16] = b"0123456789abcdef";
    let mut s = String::with_capacity(data.len() * 2);
    for &b in data {
        s.push(H[(b >> 4) as usize] as char);
        s.push(H[(b & 15) as usize] as char);
    }
    s
}

pub fn unhex(s: &str) -> Vec<u8> {
    let b = s.as_bytes();
    let v = |c: u8| -> u8 {
        match c {
            b'0'..=b'9' => c - b'0',
            b'a'..=b'f' => c - b'a' + 10,
            b'A'..=b'F' => c - b'A' + 10,
            _ => 0,
        }
    };
    (0..b.len() / 2).map(|i| v(b[2 * i]) << 4 | v(b[2 * i + 1])).collect()
}

pub fn json_escape(s: &str) -> String {
    let mut o = String::with_capacity(s.len() + 2);
    for c in s.chars() {
        match c {
            '"' => o.push_str("\\\""),
            '\\' => o.push_str("\\\\"),
            '\n' => o.push_str("\\n"),
            '\r' => o.push_str("\\r"),
            '\t' => o.push_str("\\t"),
            c if (c as u32) < 0x20 => o.push_str(&format!("\\u{:04x}", c as u32)),
            c => o.push(c),
        }
    }
    o
}

/// Printable rendering of bytes for samples (ASCII kept, rest escaped).
pub fn show(data: &[u8]) -> String {
    let mut s = String::new();
    for &b in data.iter().take(96) {
        if (0x20..0x7f).contains(&b) && b != b'\\' {
            s.push(b as char);
        } else {
            s.push_str(&format!("\\x{:02x}", b));
        }
    }
    if data.len() > 96 {
        s.push_str(&format!("...(+{})", data.len() - 96));
    }
    s
}

/// Minimal flat JSON object reader: returns string/number values by key for
/// an object whose values are strings, numbers or arrays of numbers.
pub fn json_get<'a>(src: &'a str, key: &str) -> Option<&'a str> {
    let pat = format!("\"{}\"", key);
    let mut from = 0;
    while let Some(i) = src[from..].find(&pat) {
        let at = from + i + pat.len();
        let rest = src[at..].trim_start();
        if let Some(rest) = rest.strip_prefix(':') {
            let rest = rest.trim_start();
            if let Some(r) = rest.strip_prefix('"') {
                // string value (no escapes needed for our fields)
                let mut end = 0;
                let rb = r.as_bytes();
                while end < rb.len() {
                    if rb[end] == b'\\' {
                        end += 2;
                        continue;
                    }
                    if rb[end] == b'"' {
                        break;
                    }
                    end += 1;
                }
                return Some(&r[..end]);
            } else if let Some(r) = rest.strip_prefix('[') {
                let end = r.find(']').unwrap_or(r.len());
                return Some(&r[..end]);
            } else {
                let end = rest
                    .find(|c: char| c == ',' || c == '}' || c.is_whitespace())
                    .unwrap_or(rest.len());
                return Some(&rest[..end]);
            }
        }
        from = at;
    }
    None
}
