//! Counting global allocator (C17). Counts only while the calling thread has
//! armed it, so the harness' own allocations outside the monitored window are
//! invisible.

use std::alloc::{GlobalAlloc, Layout, System};
use std::cell::Cell;

pub struct Counting;

thread_local! {
    static ARMED: Cell<bool> = const { Cell::new(false) };
    static COUNT: Cell<u64> = const { Cell::new(0) };
}

#[inline]
fn bump() {
    // try_with: never panic inside the allocator during thread teardown
    let _ = ARMED.try_with(|a| {
        if a.get() {
            let _ = COUNT.try_with(|c| c.set(c.get() + 1));
        }
    });
}

unsafe impl GlobalAlloc for Counting {
    unsafe fn alloc(&self, l: Layout) -> *mut u8 {
        bump();
        System.alloc(l)
    }
    unsafe fn dealloc(&self, p: *mut u8, l: Layout) {
        bump();
        System.dealloc(p, l)
    }
    unsafe fn alloc_zeroed(&self, l: Layout) -> *mut u8 {
        bump();
        System.alloc_zeroed(l)
    }
    unsafe fn realloc(&self, p: *mut u8, l: Layout, n: usize) -> *mut u8 {
        bump();
        System.realloc(p, l, n)
    }
}

#[inline]
pub fn arm() {
    ARMED.with(|a| a.set(true));
}

#[inline]
pub fn disarm() -> u64 {
    ARMED.with(|a| a.set(false));
    COUNT.with(|c| c.replace(0))
}
