//! Shim over `memchr::verif` so the harness also builds against a memchr
//! compiled without `--cfg memchr_verif` (everything becomes a no-op).

#[allow(unused_imports)]
use crate::prelude::*;
#[cfg(memchr_verif)]
mod imp {
    pub use memchr::verif::{
        cov_get, cov_reset, force_cpu, reset_steps, set_failpoint, steps,
        CELL_COUNT, CELL_NAMES,
    };
    pub const ENABLED: bool = true;
}

#[cfg(not(memchr_verif))]
mod imp {
    pub const ENABLED: bool = false;
    pub const CELL_COUNT: usize = 0;
    pub const CELL_NAMES: &[&str] = &[];
    pub fn steps() -> u64 {
        0
    }
    pub fn reset_steps() {}
    pub fn cov_get(_: usize) -> u64 {
        0
    }
    pub fn cov_reset() {}
    pub fn force_cpu(_: u32) {}
    pub fn set_failpoint(_: Option<fn(u32)>) {}
}

pub use imp::*;

/// Snapshot of all coverage cells.
pub fn cov_snapshot() -> Vec<u64> {
    (0..CELL_COUNT).map(cov_get).collect()
}

pub fn cell_index(name: &str) -> Option<usize> {
    CELL_NAMES.iter().position(|n| *n == name)
}

pub fn cell(name: &str) -> u64 {
    cell_index(name).map(cov_get).unwrap_or(0)
}
