//! Output protocol (JSON lines on stdout), failure records, fault handler,
//! panic capture and the distinct-case bitmap.

#[allow(unused_imports)]
use crate::prelude::*;
use crate::case::Case;
use crate::mem::Place;
use crate::util::json_escape;
#[cfg(not(target_arch = "wasm32"))]
use std::cell::RefCell;
#[cfg(not(target_arch = "wasm32"))]
use std::io::Write;

// ---------------------------------------------------------------------------
// "what I am about to do" record, read by the fault handler.

pub struct Last {
    pub valid: bool,
    pub prop: [u8; 4],
    pub api: Option<crate::case::Api>,
    pub hay: (*const u8, usize),
    pub ndl: (*const u8, usize),
    pub ops: (*const u8, usize),
    pub a: [u64; 4],
    pub hplace: Place,
    pub nplace: Place,
    pub force: u32,
}

pub static mut LAST: Last = Last {
    valid: false,
    prop: *b"C00\0",
    api: None,
    hay: (core::ptr::null(), 0),
    ndl: (core::ptr::null(), 0),
    ops: (core::ptr::null(), 0),
    a: [0; 4],
    hplace: Place::Heap,
    nplace: Place::Heap,
    force: 0,
};

#[inline]
pub fn set_last(prop: &str, c: &Case, hplace: Place, nplace: Place, force: u32) {
    unsafe {
        let l = &mut *core::ptr::addr_of_mut!(LAST);
        l.valid = true;
        let pb = prop.as_bytes();
        l.prop = [pb[0], pb[1], pb[2], 0];
        l.api = Some(c.api);
        l.hay = (c.hay.as_ptr(), c.hay.len());
        l.ndl = (c.ndl.as_ptr(), c.ndl.len());
        l.ops = (c.ops.as_ptr(), c.ops.len());
        l.a = c.a;
        l.hplace = hplace;
        l.nplace = nplace;
        l.force = force;
    }
}

pub fn last_case_json() -> String {
    unsafe {
        let l = &*core::ptr::addr_of!(LAST);
        if !l.valid || l.api.is_none() {
            return "\"api\":\"none\"".to_string();
        }
        let mk = |p: (*const u8, usize)| -> &[u8] {
            if p.1 == 0 {
                &[]
            } else {
                core::slice::from_raw_parts(p.0, p.1)
            }
        };
        let c = Case {
            api: l.api.unwrap(),
            hay: mk(l.hay),
            ndl: mk(l.ndl),
            a: l.a,
            ops: mk(l.ops),
        };
        format!(
            "\"prop\":\"{}\",\"force\":{},{}",
            core::str::from_utf8(&l.prop[..3]).unwrap_or("C00"),
            l.force,
            c.json_fields(l.hplace, l.nplace)
        )
    }
}

// ---------------------------------------------------------------------------
// fault handler (native only)

#[cfg(all(not(miri), target_os = "linux", target_arch = "x86_64"))]
mod fault {
    use super::*;

    #[repr(C)]
    struct SigAction {
        sa_sigaction: usize,
        sa_mask: [u64; 16],
        sa_flags: i32,
        sa_restorer: usize,
    }
    extern "C" {
        fn sigaction(sig: i32, act: *const SigAction, old: *mut SigAction) -> i32;
        fn write(fd: i32, buf: *const u8, n: usize) -> isize;
        fn _exit(code: i32) -> !;
    }
    const SA_SIGINFO: i32 = 4;
    const SA_NODEFER: i32 = 0x4000_0000;

    extern "C" fn handler(sig: i32, info: *const u8, _ctx: *const u8) {
        unsafe {
            // si_addr lives at offset 16 of siginfo_t on x86_64 linux
            let addr = *(info.add(16) as *const usize);
            let mut region = "unknown".to_string();
            let n = crate::mem::NGUARDS;
            for i in 0..n {
                let (id, ds, de) = crate::mem::GUARDS[i];
                let who = match id {
                    0 => "hay",
                    1 => "ndl",
                    _ => "aux",
                };
                if addr >= ds - crate::mem::PAGE && addr < ds {
                    region = format!("{}-before", who);
                }
                if addr >= de && addr < de + crate::mem::PAGE {
                    region = format!("{}-after", who);
                }
            }
            let line = format!(
                "\n{{\"t\":\"fault\",\"sig\":{},\"addr\":\"{:#x}\",\"region\":\"{}\",{}}}\n",
                sig,
                addr,
                region,
                last_case_json()
            );
            write(1, line.as_ptr(), line.len());
            _exit(97);
        }
    }

    pub fn install() {
        unsafe {
            let act = SigAction {
                sa_sigaction: handler as usize,
                sa_mask: [0; 16],
                sa_flags: SA_SIGINFO | SA_NODEFER,
                sa_restorer: 0,
            };
            for sig in [11, 7, 4, 8] {
                // SIGSEGV, SIGBUS, SIGILL, SIGFPE
                sigaction(sig, &act, core::ptr::null_mut());
            }
        }
    }
}

// AddressSanitizer kills the process at the first report: print the case that
// was being executed from its death callback so the orchestrator can attribute
// the report (the asan build configuration sets --cfg vh_asan).
#[cfg(vh_asan)]
mod asan_cb {
    extern "C" {
        fn __sanitizer_set_death_callback(cb: extern "C" fn());
        fn write(fd: i32, buf: *const u8, n: usize) -> isize;
    }
    extern "C" fn on_death() {
        let line = format!("\n{{\"t\":\"case\",{}}}\n", super::last_case_json());
        unsafe {
            write(1, line.as_ptr(), line.len());
        }
    }
    pub fn install() {
        unsafe { __sanitizer_set_death_callback(on_death) }
    }
}

pub fn install_fault_handler() {
    #[cfg(all(not(miri), target_os = "linux", target_arch = "x86_64"))]
    fault::install();
    #[cfg(vh_asan)]
    asan_cb::install();
}

// ---------------------------------------------------------------------------
// panic capture

#[cfg(not(target_arch = "wasm32"))]
thread_local! {
    static PANIC_MSG: RefCell<String> = const { RefCell::new(String::new()) };
}

#[cfg(target_arch = "wasm32")]
pub fn install_panic_hook() {}

#[cfg(target_arch = "wasm32")]
pub fn take_panic_msg() -> String {
    String::new()
}

#[cfg(not(target_arch = "wasm32"))]
pub fn install_panic_hook() {
    std::panic::set_hook(Box::new(|info| {
        let msg = if let Some(s) = info.payload().downcast_ref::<&str>() {
            s.to_string()
        } else if let Some(s) = info.payload().downcast_ref::<String>() {
            s.clone()
        } else {
            "<non-string panic>".to_string()
        };
        let loc = info
            .location()
            .map(|l| format!("{}:{}", l.file(), l.line()))
            .unwrap_or_default();
        let _ = PANIC_MSG.try_with(|m| {
            *m.borrow_mut() = format!("{} at {}", msg, loc);
        });
    }));
}

#[cfg(not(target_arch = "wasm32"))]
pub fn take_panic_msg() -> String {
    PANIC_MSG.with(|m| core::mem::take(&mut *m.borrow_mut()))
}

// ---------------------------------------------------------------------------
// reporter

pub const BITMAP_BITS: usize = 1 << 27;

pub struct Reporter {
    pub prop: String,
    pub evals: u64,
    pub nontrivial: u64,
    pub fails: u64,
    pub max_fails: u64,
    bitmap: Vec<u64>,
    pub samples: Vec<String>,
    pub sample_cap: usize,
    sample_seen: u64,
    pub counters: Vec<(String, u64)>,
    pub notes: Vec<String>,
    pub force: u32,
    pub config: String,
    pub use_bitmap: bool,
}

impl Reporter {
    pub fn new(prop: &str, config: &str, force: u32, use_bitmap: bool) -> Reporter {
        Reporter {
            prop: prop.to_string(),
            evals: 0,
            nontrivial: 0,
            fails: 0,
            max_fails: 8,
            bitmap: if use_bitmap { vec![0u64; BITMAP_BITS / 64] } else { Vec::new() },
            samples: Vec::new(),
            sample_cap: 6,
            sample_seen: 0,
            counters: Vec::new(),
            notes: Vec::new(),
            force,
            config: config.to_string(),
            use_bitmap,
        }
    }

    #[inline]
    pub fn mark(&mut self, hash: u64, nontrivial: bool) {
        self.evals += 1;
        if nontrivial {
            self.nontrivial += 1;
            if self.use_bitmap {
                let bit = (hash as usize) & (BITMAP_BITS - 1);
                self.bitmap[bit >> 6] |= 1u64 << (bit & 63);
            }
        }
    }

    pub fn distinct(&self) -> u64 {
        self.bitmap.iter().map(|w| w.count_ones() as u64).sum()
    }

    pub fn count(&mut self, name: &str, by: u64) {
        if let Some(e) = self.counters.iter_mut().find(|e| e.0 == name) {
            e.1 += by;
        } else {
            self.counters.push((name.to_string(), by));
        }
    }

    pub fn set_max(&mut self, name: &str, v: u64) {
        if let Some(e) = self.counters.iter_mut().find(|e| e.0 == name) {
            if v > e.1 {
                e.1 = v;
            }
        } else {
            self.counters.push((name.to_string(), v));
        }
    }

    /// Keep a few literal samples: the first ones plus a sparse later spread.
    pub fn want_sample(&mut self) -> bool {
        self.sample_seen += 1;
        let s = self.sample_seen;
        self.samples.len() < self.sample_cap
            && (s <= 2 || (s & (s - 1)) == 0 && s >= 1024)
    }

    pub fn add_sample(&mut self, s: String) {
        if self.samples.len() < self.sample_cap {
            self.samples.push(s);
        }
    }

    pub fn fail(
        &mut self,
        prop: &str,
        kind: &str,
        c: &Case,
        hplace: Place,
        nplace: Place,
        msg: &str,
        recipe: Option<&str>,
    ) {
        self.fails += 1;
        let big = c.hay.len() > (1 << 17);
        let fields = if big && recipe.is_some() {
            let small = Case { hay: &c.hay[..64.min(c.hay.len())], ..*c };
            small.json_fields(hplace, nplace)
        } else {
            c.json_fields(hplace, nplace)
        };
        let rec = match recipe {
            Some(r) => format!(",\"recipe\":\"{}\"", json_escape(r)),
            None => String::new(),
        };
        println!(
            "{{\"t\":\"fail\",\"prop\":\"{}\",\"kind\":\"{}\",\"config\":\"{}\",\"force\":{},\"msg\":\"{}\",{}{}}}",
            prop,
            kind,
            self.config,
            self.force,
            json_escape(msg),
            fields,
            rec
        );
    }

    pub fn too_many_fails(&self) -> bool {
        self.fails >= self.max_fails
    }

    pub fn note(&mut self, s: &str) {
        self.notes.push(s.to_string());
    }

    /// Emit the final statistics. `bitmap_path`: where to dump the bitmap.
    pub fn finish(&mut self, bitmap_path: Option<&str>) {
        #[allow(unused_mut)]
        let mut bm_written = false;
        #[cfg(target_arch = "wasm32")]
        let _ = bitmap_path;
        #[cfg(not(target_arch = "wasm32"))]
        if let (true, Some(path)) = (self.use_bitmap, bitmap_path) {
            if let Ok(mut f) = std::fs::File::create(path) {
                let bytes = unsafe {
                    core::slice::from_raw_parts(
                        self.bitmap.as_ptr() as *const u8,
                        self.bitmap.len() * 8,
                    )
                };
                bm_written = f.write_all(bytes).is_ok();
            }
        }
        let counters: Vec<String> = self
            .counters
            .iter()
            .map(|(k, v)| format!("\"{}\":{}", json_escape(k), v))
            .collect();
        let cells: Vec<String> = crate::hooks::CELL_NAMES
            .iter()
            .enumerate()
            .map(|(i, n)| format!("\"{}\":{}", n, crate::hooks::cov_get(i)))
            .collect();
        let notes: Vec<String> = self
            .notes
            .iter()
            .map(|n| format!("\"{}\"", json_escape(n)))
            .collect();
        println!(
            "{{\"t\":\"stat\",\"prop\":\"{}\",\"config\":\"{}\",\"force\":{},\"evals\":{},\"nontrivial\":{},\"distinct_local\":{},\"bitmap\":{},\"fails\":{},\"counters\":{{{}}},\"cells\":{{{}}},\"notes\":[{}],\"samples\":[{}]}}",
            self.prop,
            self.config,
            self.force,
            self.evals,
            self.nontrivial,
            if self.use_bitmap { self.distinct() } else { 0 },
            bm_written,
            self.fails,
            counters.join(","),
            cells.join(","),
            notes.join(","),
            self.samples.join(","),
        );
        println!("{{\"t\":\"done\"}}");
        #[cfg(not(target_arch = "wasm32"))]
        let _ = std::io::stdout().flush();
    }
}
