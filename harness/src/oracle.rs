//! Reference models. Plain loops with indexing; nothing here calls memchr.

#[allow(unused_imports)]
use crate::prelude::*;
use alloc::collections::VecDeque;

#[inline]
pub fn is_needle(b: u8, ndl: &[u8]) -> bool {
    // ndl has 1..=3 bytes
    let mut i = 0;
    while i < ndl.len() {
        if ndl[i] == b {
            return true;
        }
        i += 1;
    }
    false
}

pub fn first(hay: &[u8], ndl: &[u8]) -> Option<usize> {
    let mut i = 0;
    while i < hay.len() {
        if is_needle(hay[i], ndl) {
            return Some(i);
        }
        i += 1;
    }
    None
}

pub fn last(hay: &[u8], ndl: &[u8]) -> Option<usize> {
    let mut i = hay.len();
    while i > 0 {
        i -= 1;
        if is_needle(hay[i], ndl) {
            return Some(i);
        }
    }
    None
}

pub fn count(hay: &[u8], ndl: &[u8]) -> usize {
    let mut n = 0;
    for &b in hay {
        if is_needle(b, ndl) {
            n += 1;
        }
    }
    n
}

pub fn positions(hay: &[u8], ndl: &[u8]) -> VecDeque<usize> {
    let mut v = VecDeque::new();
    for (i, &b) in hay.iter().enumerate() {
        if is_needle(b, ndl) {
            v.push_back(i);
        }
    }
    v
}

#[inline]
fn eq_at(hay: &[u8], at: usize, ndl: &[u8]) -> bool {
    let mut j = 0;
    while j < ndl.len() {
        if hay[at + j] != ndl[j] {
            return false;
        }
        j += 1;
    }
    true
}

pub fn naive_find(hay: &[u8], ndl: &[u8]) -> Option<usize> {
    if ndl.len() > hay.len() {
        return None;
    }
    let mut i = 0;
    while i + ndl.len() <= hay.len() {
        if eq_at(hay, i, ndl) {
            return Some(i);
        }
        i += 1;
    }
    None
}

pub fn naive_rfind(hay: &[u8], ndl: &[u8]) -> Option<usize> {
    if ndl.len() > hay.len() {
        return None;
    }
    let mut i = hay.len() - ndl.len() + 1;
    while i > 0 {
        i -= 1;
        if eq_at(hay, i, ndl) {
            return Some(i);
        }
    }
    None
}

/// A faster find for long inputs where the naive one would take too long
/// (used by the C13 workloads whose haystacks are megabytes): still
/// independent of memchr - it is a straightforward KMP.
pub fn kmp_find_from(hay: &[u8], ndl: &[u8], from: usize) -> Option<usize> {
    if ndl.is_empty() {
        return if from <= hay.len() { Some(from) } else { None };
    }
    if from > hay.len() || ndl.len() > hay.len() - from {
        return None;
    }
    let fail = kmp_table(ndl);
    let mut k = 0usize;
    let mut i = from;
    while i < hay.len() {
        while k > 0 && hay[i] != ndl[k] {
            k = fail[k - 1];
        }
        if hay[i] == ndl[k] {
            k += 1;
        }
        if k == ndl.len() {
            return Some(i + 1 - ndl.len());
        }
        i += 1;
    }
    None
}

pub fn kmp_table(ndl: &[u8]) -> Vec<usize> {
    let mut fail = vec![0usize; ndl.len()];
    let mut k = 0usize;
    for i in 1..ndl.len() {
        while k > 0 && ndl[i] != ndl[k] {
            k = fail[k - 1];
        }
        if ndl[i] == ndl[k] {
            k += 1;
        }
        fail[i] = k;
    }
    fail
}

/// All occurrences (overlapping) via KMP, ascending.
pub fn all_occurrences(hay: &[u8], ndl: &[u8]) -> Vec<usize> {
    let mut v = Vec::new();
    if ndl.is_empty() {
        return (0..=hay.len()).collect();
    }
    if ndl.len() > hay.len() {
        return v;
    }
    let fail = kmp_table(ndl);
    let mut k = 0usize;
    for i in 0..hay.len() {
        while k > 0 && hay[i] != ndl[k] {
            k = fail[k - 1];
        }
        if hay[i] == ndl[k] {
            k += 1;
        }
        if k == ndl.len() {
            v.push(i + 1 - ndl.len());
            k = fail[k - 1];
        }
    }
    v
}

/// Leftmost occurrence for any input size: naive for small inputs (the
/// definition itself), KMP cross-checked against naive otherwise.
pub fn find(hay: &[u8], ndl: &[u8]) -> Option<usize> {
    if hay.len().saturating_mul(ndl.len().max(1)) <= 1 << 16 {
        naive_find(hay, ndl)
    } else {
        kmp_find_from(hay, ndl, 0)
    }
}

pub fn rfind(hay: &[u8], ndl: &[u8]) -> Option<usize> {
    if hay.len().saturating_mul(ndl.len().max(1)) <= 1 << 16 {
        naive_rfind(hay, ndl)
    } else if ndl.is_empty() {
        Some(hay.len())
    } else {
        all_occurrences(hay, ndl).last().copied()
    }
}

/// Greedy non-overlapping forward sequence.
pub fn greedy_fwd(hay: &[u8], ndl: &[u8]) -> Vec<usize> {
    if ndl.is_empty() {
        return (0..=hay.len()).collect();
    }
    let occ = all_occurrences(hay, ndl);
    let mut v = Vec::new();
    let mut next_ok = 0usize;
    for p in occ {
        if p >= next_ok {
            v.push(p);
            next_ok = p + ndl.len();
        }
    }
    v
}

/// Greedy non-overlapping reverse sequence (descending).
pub fn greedy_rev(hay: &[u8], ndl: &[u8]) -> Vec<usize> {
    if ndl.is_empty() {
        return (0..=hay.len()).rev().collect();
    }
    let occ = all_occurrences(hay, ndl);
    let mut v = Vec::new();
    let mut limit = hay.len(); // next match must end at or before limit
    for &p in occ.iter().rev() {
        if p + ndl.len() <= limit {
            v.push(p);
            limit = p;
        }
    }
    v
}
