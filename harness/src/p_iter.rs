//! Drivers for C06 (byte-search iterators), C07 (counting), C08 (substring
//! iterators) and C16 (finder purity / reuse / clone / into_owned).

#[allow(unused_imports)]
use crate::prelude::*;
use crate::case::{Api, Be, Fam};
use crate::exec::{push_record, typed_backends};
use crate::gen;
use crate::mem::{standard_places, Place};
use crate::p_sub::{exhaustive_pairs, inflated_pairs, level, long_pairs, prefilter_history, structured_pairs};
use crate::runner::{Runner, Tier};

fn iter_apis(r: &Runner) -> Vec<Api> {
    let mut v = Vec::new();
    for n in 1..=3u8 {
        v.push(Api::new(Fam::IterHist, Be::Top, n, false, 0));
        if r.only == "top" {
            continue;
        }
        for be in typed_backends() {
            v.push(Api::new(Fam::IterHist, be, n, false, 0));
        }
    }
    v
}

const NEEDLES: [u8; 3] = [b'x', 0x80, 0xFF];

/// Needle triples for iterator histories, including duplicated needles
/// (`memchr2_iter(x, x, ..)`, `memchr3_iter(x, y, x, ..)`).
const NEEDLE_SETS: [[u8; 3]; 5] = [
    [b'x', 0x80, 0xFF],
    [b'x', b'x', 0xFF],
    [b'x', 0x80, b'x'],
    [b'x', b'x', b'x'],
    [0x00, 0x80, 0x80],
];

/// haystack with needle bytes exactly at `positions` (rotating through the
/// first `n` needles), filler elsewhere
fn hay_with(buf: &mut Vec<u8>, len: usize, positions: &[usize], n: usize) {
    hay_with_set(buf, len, positions, n, &NEEDLES)
}

fn hay_with_set(buf: &mut Vec<u8>, len: usize, positions: &[usize], n: usize, nd: &[u8; 3]) {
    buf.clear();
    for i in 0..len {
        buf.push(match i % 3 {
            0 => b'y',
            1 => 0x81,
            _ => 0x7F,
        });
    }
    for (k, &p) in positions.iter().enumerate() {
        buf[p] = nd[k % n];
    }
}

/// all op strings over {n,b} of length `l`, by index
fn ops_from_bits(bits: u64, l: usize, out: &mut Vec<u8>) {
    out.clear();
    for i in 0..l {
        out.push(if (bits >> i) & 1 == 0 { b'n' } else { b'b' });
    }
}

/// C06
pub fn byte_iters(r: &mut Runner) {
    let apis = iter_apis(r);
    let mut buf = Vec::new();
    let mut ops = Vec::new();
    let mut pos: Vec<usize> = Vec::new();
    let mut unit = 0u64;
    // (1) exhaustive histories on short haystacks
    let lmax = match r.tier {
        Tier::Miri => 4,
        Tier::Quick => 10,
        Tier::Thorough => 12,
    };
    for len in 0..=lmax {
        for subset in 0u64..(1 << len) {
            unit += 1;
            if !r.mine(unit) {
                continue;
            }
            pos.clear();
            for i in 0..len {
                if (subset >> i) & 1 == 1 {
                    pos.push(i);
                }
            }
            let m = pos.len();
            let oplen = m + 2;
            let place = [Place::GuardR, Place::GuardL, Place::Heap, Place::Arena(5)][(unit % 4) as usize];
            for &api in &apis {
                // rotate APIs over subsets in the quick tier to bound cost
                if r.tier != Tier::Thorough && (unit + api.code()) % 2 != 0 && len > 7 {
                    continue;
                }
                let nset = NEEDLE_SETS[((unit / 3 + api.code()) % NEEDLE_SETS.len() as u64) as usize];
                hay_with_set(&mut buf, len, &pos, api.n as usize, &nset);
                for bits in 0u64..(1 << oplen) {
                    ops_from_bits(bits, oplen, &mut ops);
                    r.run(api, &buf, &nset, [0; 4], &ops, place, Place::Heap, len > 0);
                }
                // the same subset under every other needle set (duplicated
                // needles), one alternating history each
                for (si, ns) in NEEDLE_SETS.iter().enumerate() {
                    hay_with_set(&mut buf, len, &pos, api.n as usize, ns);
                    ops_from_bits(0xAAAA_AAAA_AAAA_AAAAu64 >> (si % 2), oplen, &mut ops);
                    r.run(api, &buf, ns, [0; 4], &ops, place, Place::Heap, len > 0);
                }
                hay_with_set(&mut buf, len, &pos, api.n as usize, &nset);
                // one variant with count-on-clone after every step and a
                // continue-on-clone in the middle
                let mut o2 = Vec::new();
                for (i, bit) in (0..oplen).enumerate() {
                    o2.push(if (subset >> bit) & 1 == 0 { b'n' } else { b'b' });
                    o2.push(b'k');
                    if i == oplen / 2 {
                        o2.push(b'c');
                    }
                }
                r.run(api, &buf, &nset, [0; 4], &o2, place, Place::Heap, len > 0);
            }
            if r.stop() {
                return;
            }
        }
    }
    if r.tier == Tier::Miri {
        return byte_iters_boundary(r, &apis, 12, 2);
    }
    // (2) matches clustered on vector / loop boundaries, all interleavings
    let (nsets, maxm) = match r.tier {
        Tier::Quick => (r.scaled(40), 6usize),
        _ => (r.scaled(400), 8usize),
    };
    byte_iters_boundary(r, &apis, nsets, maxm);
    // (2b) long haystacks with matches recurring at a fixed period (the same
    // lane of every vector), walked from both ends
    for (k, &len) in [8192usize, 8223, 16389].iter().enumerate() {
        for &per in &[1usize, 16, 32, 33, 255] {
            unit += 1;
            if !r.mine(unit) {
                continue;
            }
            let nset = NEEDLE_SETS[(k + per) % NEEDLE_SETS.len()];
            buf.clear();
            for i in 0..len {
                buf.push(if i % per == 0 { nset[(i / per) % 3] } else { b'm' });
            }
            for &api in &apis {
                let m = crate::oracle::count(&buf, &nset[..api.n as usize]);
                ops.clear();
                for t in 0..(m + 2).min(1200) {
                    ops.push(if t % 3 == 0 { b'b' } else { b'n' });
                    if t % 97 == 5 {
                        ops.push(b'k');
                    }
                }
                r.run(api, &buf, &nset, [0; 4], &ops, Place::GuardR, Place::Heap, true);
            }
        }
    }
    // (3) long haystacks, dense and sparse, random interleavings
    let trials = match r.tier {
        Tier::Quick => r.scaled(60),
        _ => r.scaled(1500),
    } / r.nshards
        + 1;
    for t in 0..trials {
        let len = [300usize, 1000, 4099, 20000][(t % 4) as usize];
        let density = [2u64, 9, 64, 700][((t / 4) % 4) as usize];
        buf.clear();
        for _ in 0..len {
            let b = if r.rng.below(density) == 0 { NEEDLES[r.rng.below(3) as usize] } else { b'a' + (r.rng.byte() % 16) };
            buf.push(b);
        }
        let api = apis[(t as usize) % apis.len()];
        let m = crate::oracle::count(&buf, &NEEDLES[..api.n as usize]);
        ops.clear();
        let total = (m + 3).min(4000);
        for _ in 0..total {
            let x = r.rng.below(20);
            ops.push(match x {
                0 => b'k',
                1 => b'c',
                x if x % 2 == 0 => b'n',
                _ => b'b',
            });
        }
        let place = if t % 2 == 0 { Place::GuardR } else { Place::GuardL };
        r.run(api, &buf, &NEEDLES, [0; 4], &ops, place, Place::Heap, true);
    }
}

fn byte_iters_boundary(r: &mut Runner, apis: &[Api], nsets: u64, maxm: usize) {
    let mut buf = Vec::new();
    let mut ops = Vec::new();
    let lens = [16usize, 17, 31, 32, 33, 47, 48, 63, 64, 65, 95, 96, 97, 128, 129, 140];
    let mut unit = 1_000_000u64;
    for s in 0..nsets {
        unit += 1;
        if !r.mine(unit) {
            continue;
        }
        let mut rr = crate::util::Rng::new(r.seed ^ (s + 1).wrapping_mul(0xC06));
        let len = lens[rr.below(lens.len() as u64) as usize];
        let mut b: Vec<usize> = vec![0, 1, len - 1, len - 2];
        for q in [15usize, 16, 17, 31, 32, 33, 47, 48, 63, 64, 65, 79, 80, 96, 127, 128] {
            if q < len {
                b.push(q);
                b.push(len - 1 - q);
            }
        }
        b.sort();
        b.dedup();
        let m = 1 + rr.below(maxm as u64) as usize;
        let mut pos: Vec<usize> = Vec::new();
        for _ in 0..m {
            // mostly boundary positions, sometimes adjacent to a previous one
            let p = if rr.chance(1, 4) && !pos.is_empty() {
                (pos[rr.below(pos.len() as u64) as usize] + 1).min(len - 1)
            } else {
                b[rr.below(b.len() as u64) as usize]
            };
            pos.push(p);
        }
        pos.sort();
        pos.dedup();
        let m = pos.len();
        let oplen = m + 1;
        let place = standard_places(true)[(s % 23) as usize];
        for &api in apis {
            if (s + api.code()) % 2 != 0 && r.tier != Tier::Thorough {
                continue;
            }
            let nset = NEEDLE_SETS[((s + api.code() / 7) % NEEDLE_SETS.len() as u64) as usize];
            hay_with_set(&mut buf, len, &pos, api.n as usize, &nset);
            for bits in 0u64..(1 << oplen) {
                ops_from_bits(bits, oplen, &mut ops);
                ops.push(b'k');
                ops.push(b'n');
                ops.push(b'b');
                r.run(api, &buf, &nset, [0; 4], &ops, place, Place::Heap, true);
            }
            if r.stop() {
                return;
            }
        }
    }
}

/// C07
pub fn counting(r: &mut Runner) {
    let (maxlen, full) = match r.tier {
        Tier::Miri => (80usize, false),
        Tier::Quick => (200, false),
        Tier::Thorough => (451, true),
    };
    let places = standard_places(full);
    let mut apis: Vec<Api> = vec![Api::new(Fam::Count, Be::Top, 1, false, 0)];
    if r.only != "top" {
        for be in typed_backends() {
            for form in 0..3 {
                apis.push(Api::new(Fam::Count, be, 1, false, form));
            }
        }
    }
    let mut buf: Vec<u8> = Vec::new();
    let mut unit = 0u64;
    let lens: Vec<usize> = if r.tier == Tier::Miri {
        vec![0, 1, 15, 16, 17, 31, 32, 33, 63, 64, 65, 80, 127, 128, 129, 160, 257]
    } else {
        (0..=maxlen).collect()
    };
    for &len in &lens {
        unit += 1;
        if !r.mine(unit) {
            continue;
        }
        // the needle value rotates with the length: newline, 0x00, 0x80,
        // 0xFF, a letter
        let nb = [b'\n', 0x00, 0x80, 0xFF, b'a'][len % 5];
        let nd = [nb];
        let miss1 = nb ^ 1;
        let miss2 = nb ^ 0x80;
        // densities: none, all, one match at every position, alternating,
        // every third, random p in {1/64, 1/8, 1/2}, near-miss bytes only
        let mut pats: Vec<Vec<u8>> = Vec::new();
        pats.push(vec![miss2; len]);
        pats.push(vec![nb; len]);
        pats.push((0..len).map(|i| if i % 2 == 0 { nb } else { miss1 }).collect());
        pats.push((0..len).map(|i| if i % 3 == 1 { nb } else { miss2 }).collect());
        for den in [64u64, 8, 2] {
            pats.push((0..len).map(|_| if r.rng.below(den) == 0 { nb } else { let b = r.rng.byte(); if b == nb { miss1 } else { b } }).collect());
        }
        let single: Vec<usize> = if r.tier == Tier::Miri { vec![0, len / 2, len.saturating_sub(1)] } else { (0..len).collect() };
        for (pk, pat) in pats.iter().enumerate() {
            for (k, &place) in places.iter().enumerate() {
                if r.tier == Tier::Miri && (k + pk) % 3 != 0 {
                    continue;
                }
                for &api in &apis {
                    r.run0(api, pat, &nd, place, Place::Heap, len > 0);
                }
            }
        }
        // exactly one match at every position (which lane / which region)
        for &p in &single {
            if p >= len {
                continue;
            }
            buf.clear();
            buf.resize(len, miss1);
            buf[p] = nb;
            let place = places[(p + len) % places.len()];
            for &api in &apis {
                r.run0(api, &buf, &nd, place, Place::Heap, true);
            }
            let place2 = if p % 2 == 0 { Place::GuardR } else { Place::GuardL };
            for &api in &apis {
                r.run0(api, &buf, &nd, place2, Place::Heap, true);
            }
        }
        if r.stop() {
            return;
        }
    }
    // long haystacks with periodic matches: per-lane counters and block
    // structures of a counting kernel only show up after thousands of bytes
    // with the needle recurring in the same lane of every vector
    if r.tier != Tier::Miri {
        let sizes: &[usize] = if r.tier == Tier::Thorough {
            &[4096, 8191, 8192, 8193, 8223, 16384, 16389, 40000, 70001, 262144 + 7]
        } else {
            &[4096, 8192, 8193, 8223, 16389, 70001]
        };
        let periods: &[usize] = &[1, 2, 4, 8, 16, 32, 33, 64, 3, 255, 256];
        for &len in sizes {
            for &per in periods {
                unit += 1;
                if !r.mine(unit) {
                    continue;
                }
                for (ni, &nb) in [0x00u8, b'\n', 0xFF].iter().enumerate() {
                    let miss = nb ^ 0x80;
                    buf.clear();
                    for i in 0..len {
                        buf.push(if i % per == (ni * 7) % per { nb } else { miss });
                    }
                    let nd = [nb];
                    for place in [Place::GuardR, Place::GuardL, Place::Arena(1), Place::Arena(17), Place::Heap] {
                        for &api in &apis {
                            r.run0(api, &buf, &nd, place, Place::Heap, true);
                        }
                    }
                    // the same through partially consumed iterators
                    let iapis: Vec<Api> = iter_apis(r).into_iter().filter(|a| a.n == 1).collect();
                    for ops in [&b"k"[..], b"nk", b"bk", b"nnbbk", b"nbnbnbnbk"] {
                        for &api in &iapis {
                            r.run(api, &buf, &[nb, 0, 0], [0; 4], ops, Place::GuardR, Place::Heap, true);
                        }
                    }
                }
                if r.stop() {
                    return;
                }
            }
        }
    }
    // partially consumed iterators: i nexts, j next_backs, then count()
    let iapis: Vec<Api> = iter_apis(r).into_iter().filter(|a| a.n == 1).collect();
    let plens: Vec<usize> = match r.tier {
        Tier::Miri => vec![20, 70],
        Tier::Quick => vec![5, 20, 40, 70, 100, 150, 300],
        Tier::Thorough => vec![5, 9, 20, 33, 40, 64, 70, 100, 129, 150, 300, 1000],
    };
    let mut ops = Vec::new();
    for &len in &plens {
        for den in [1u64, 2, 5, 17] {
            unit += 1;
            if !r.mine(unit) {
                continue;
            }
            buf.clear();
            for i in 0..len {
                buf.push(if (i as u64) % den == 0 || r.rng.below(den * 3) == 0 { b'x' } else { b'y' });
            }
            let m = crate::oracle::count(&buf, b"x");
            let cap = if r.tier == Tier::Thorough { 40 } else if r.tier == Tier::Quick { 14 } else { 3 };
            for i in 0..=m.min(cap) {
                for j in 0..=(m - i).min(cap) {
                    ops.clear();
                    // interleave i nexts and j next_backs in two orders
                    for _ in 0..i {
                        ops.push(b'n');
                    }
                    for _ in 0..j {
                        ops.push(b'b');
                    }
                    ops.push(b'k');
                    let place = [Place::GuardR, Place::GuardL, Place::Arena(9)][(i + j) % 3];
                    for &api in &iapis {
                        r.run(api, &buf, b"x\0\0", [0; 4], &ops, place, Place::Heap, true);
                    }
                    if i > 0 && j > 0 {
                        ops.clear();
                        for t in 0..(i + j) {
                            ops.push(if t % 2 == 0 && t / 2 < i || t / 2 >= j { b'n' } else { b'b' });
                        }
                        // exact i/j split is not important here: count after a mixed prefix
                        ops.push(b'k');
                        for &api in &iapis {
                            r.run(api, &buf, b"x\0\0", [0; 4], &ops, place, Place::Heap, true);
                        }
                    }
                }
            }
            if r.stop() {
                return;
            }
        }
    }
}

/// Random op string for substring iterators: mostly `n`, some clone / own.
fn subiter_ops(r: &mut Runner, len: usize, out: &mut Vec<u8>) {
    out.clear();
    for _ in 0..len {
        out.push(match r.rng.below(10) {
            0 => b'c',
            1 => b'o',
            _ => b'n',
        });
    }
}

/// C08
pub fn sub_iters(r: &mut Runner) {
    let lvl = level(r);
    let mut ops: Vec<u8> = Vec::new();
    let forms: Vec<u8> = if cfg!(feature = "alloc") { vec![0, 1, 2] } else { vec![0, 1] };
    let mut run_pair = |r: &mut Runner, hay: &[u8], ndl: &[u8], k: u64| {
        let hp = [Place::GuardR, Place::GuardL, Place::Heap, Place::Arena(3)][(k % 4) as usize];
        let np = [Place::Heap, Place::GuardR, Place::GuardL][(k % 3) as usize];
        for rev in [false, true] {
            for &form in &forms {
                if (k + form as u64) % 2 == 0 {
                    ops.clear();
                } else {
                    let l = 2 + (k % 7) as usize;
                    subiter_ops(r, l, &mut ops);
                }
                r.run(Api::new(Fam::SubIter, Be::Top, 0, rev, form), hay, ndl, [0; 4], &ops, hp, np, !hay.is_empty());
            }
        }
    };
    // self-overlapping needles in highly repetitive haystacks
    let overl: [&[u8]; 9] = [b"aa", b"aba", b"abab", b"aabaa", b"aaa", b"abaaba", b"abcabcab", b"a", b""];
    let mut hay = Vec::new();
    let mut k = 0u64;
    for nd in overl.iter() {
        for base in [
            &b"a"[..],
            b"ab",
            b"aab",
            b"aba",
            b"abc",
            b"aabaa",
            // bytes with the high bit set, UTF-8 continuation / lead bytes,
            // NUL and 0xFF: nothing in these searches may depend on the
            // encoding of the haystack
            b"\x80",
            b"a\xbf",
            b"\xc3\xa9l",
            b"\xff\x00\x80",
        ] {
            let lens: Vec<usize> = if lvl == 0 { vec![0, 9, 40] } else { (0..=70).chain([100, 127, 128, 129, 200, 300, 1000]).collect() };
            for hl in lens {
                k += 1;
                if !r.mine(k) {
                    continue;
                }
                hay.clear();
                for i in 0..hl {
                    hay.push(base[i % base.len()]);
                }
                run_pair(r, &hay, nd, k);
                if hl > 3 {
                    // one defect in the repetition
                    hay[hl / 2] = b'#';
                    run_pair(r, &hay, nd, k + 1);
                }
            }
        }
    }
    // long single-letter needles in single-letter haystacks
    for m in [2usize, 16, 31, 32, 33, 64, 100] {
        for hl in [0usize, 1, 63, 64, 65, 100, 333, 1000] {
            k += 1;
            if !r.mine(k) || (lvl == 0 && (m > 33 || hl > 100)) {
                continue;
            }
            let nd = vec![b'a'; m];
            let hay = vec![b'a'; hl];
            run_pair(r, &hay, &nd, k);
        }
    }
    let (nmax, hmax) = match lvl {
        0 => (2, 5),
        1 => (4, 11),
        _ => (5, 14),
    };
    exhaustive_pairs(r, b"ab", nmax, hmax, &[(0, 0)], &mut run_pair);
    if lvl >= 1 {
        exhaustive_pairs(r, b"ab", 4, if lvl == 1 { 7 } else { 9 }, &[(100, 0), (100, 91), (300, 150)], &mut run_pair);
    }
    if lvl >= 1 {
        let (nr, hmax) = if lvl == 1 { ((6, 7), 8) } else { ((5, 8), 9) };
        inflated_pairs(r, nr, hmax, &mut run_pair);
        inflated_pairs(r, (3, 4), if lvl == 1 { 8 } else { 10 }, &mut run_pair);
    }
    structured_pairs(r, if lvl >= 2 { 700 } else { 130 }, &mut run_pair);
    long_pairs(r, &mut run_pair);
    // prefilter history: matches after the prefilter went inert / while it is
    // still effective after many candidates
    prefilter_history(r, &mut |r, hay, ndl, k| {
        let ops: &[u8] = if k % 2 == 0 { b"" } else { b"nco" };
        for form in 0..2 {
            r.run(Api::new(Fam::SubIter, Be::Top, 0, false, form), hay, ndl, [0; 4], ops, Place::Heap, Place::Heap, true);
        }
        if hay.len() < 50_000 {
            r.run(Api::new(Fam::SubIter, Be::Top, 0, true, 1), hay, ndl, [0; 4], ops, Place::Heap, Place::Heap, true);
        }
    });
}

/// C16
pub fn purity(r: &mut Runner) {
    let lvl = level(r);
    let mut grng = crate::util::Rng::new(r.seed ^ 0x1616);
    let needles = gen::needle_families(lvl.min(1), &mut grng);
    let mut hay: Vec<u8> = Vec::new();
    let mut piece: Vec<u8> = Vec::new();
    let mut ops: Vec<u8> = Vec::new();
    let mut unit = 0u64;
    let reps = match lvl {
        0 => 1,
        1 => 2,
        _ => 4,
    };
    for ndl in &needles {
        let n = ndl.bytes.len();
        if n > 320 {
            continue;
        }
        for rep in 0..reps {
            for rev in [false, true] {
                unit += 1;
                if !r.mine(unit) {
                    continue;
                }
                let mut rr = crate::util::Rng::new(r.seed ^ unit.wrapping_mul(0x1601));
                hay.clear();
                ops.clear();
                let nh = if lvl == 0 { 6 } else { 20 + rr.below(if lvl >= 2 { 180 } else { 30 }) as usize };
                let lens = gen::hay_lens(n, 1);
                let mut owned_done = false;
                for h in 0..nh {
                    let hl = if rr.chance(1, 6) { rr.range(0, 40) } else { lens[rr.below(lens.len() as u64) as usize] };
                    let bg = rr.below(gen::NBG as u64) as usize;
                    gen::background(&mut piece, hl, &ndl.bytes, bg, &mut rr);
                    if n <= hl && rr.chance(2, 3) {
                        let d = rr.range(0, hl - n);
                        piece[d..d + n].copy_from_slice(&ndl.bytes);
                    }
                    hay.extend_from_slice(&piece);
                    let op = match rr.below(12) {
                        0 => b'r',
                        1 if hl <= 400 => b'i',
                        _ => b'f',
                    };
                    push_record(&mut ops, op, hl);
                    match rr.below(10) {
                        0 => push_record(&mut ops, b'c', 0),
                        1 => push_record(&mut ops, b'n', 0),
                        2 if cfg!(feature = "alloc") && (!owned_done || rr.chance(1, 3)) && h > 1 => {
                            push_record(&mut ops, b'o', 0);
                            owned_done = true;
                        }
                        _ => {}
                    }
                }
                push_record(&mut ops, b'n', 0);
                let np = [Place::Heap, Place::GuardR, Place::GuardL][(rep as usize + unit as usize) % 3];
                r.run(Api::new(Fam::History, Be::Top, 0, rev, 0), &hay, &ndl.bytes, [0; 4], &ops, Place::Heap, np, true);
                if r.stop() {
                    return;
                }
            }
        }
    }
    // prefilter-exhausting haystacks interleaved with ordinary ones: state
    // must not leak from one search to the next
    prefilter_history(r, &mut |r, h, ndl, k| {
        if h.len() > 100_000 {
            return;
        }
        let mut hay: Vec<u8> = Vec::new();
        let mut ops: Vec<u8> = Vec::new();
        let short_hit: Vec<u8> = {
            let mut v = vec![b'.'; 20];
            v.extend_from_slice(ndl);
            v
        };
        for round in 0..3 {
            hay.extend_from_slice(h);
            push_record(&mut ops, b'f', h.len());
            hay.extend_from_slice(&short_hit);
            push_record(&mut ops, b'f', short_hit.len());
            hay.extend_from_slice(&short_hit[..short_hit.len() - 1]);
            push_record(&mut ops, b'f', short_hit.len() - 1);
            if round == 1 && cfg!(feature = "alloc") && k % 2 == 0 {
                push_record(&mut ops, b'o', 0);
            }
            if round == 0 {
                push_record(&mut ops, b'c', 0);
            }
        }
        r.run(Api::new(Fam::History, Be::Top, 0, false, 0), &hay, ndl, [0; 4], &ops, Place::Heap, Place::GuardR, true);
        // the iterator carries prefilter state across next() calls: clone it
        // / convert it at several points of a traversal that drives the
        // prefilter inert, and require the copy to finish the same sequence
        for ops in [&b"nnnc"[..], b"nnno", b"c", b"o", b"nnnnnnnnnnnnnnnnnnnnnnnnnnnnnnnnnnnnnnnnnnnnnnnnnnnnnnnnnnnnco"] {
            for form in 0..2 {
                r.run(Api::new(Fam::SubIter, Be::Top, 0, false, form), h, ndl, [0; 4], ops, Place::Heap, Place::GuardL, true);
            }
        }
    });
    // iterators cloned / converted at every step index
    let mut k = 0u64;
    let iter_needles: [&[u8]; 6] = [b"ab", b"aa", b"", b"abcab", b"a", b"etaoin shrdlu etaoin shrdlu etaoin Zq"];
    for nd in iter_needles.iter() {
        for hl in [0usize, 7, 40, 90, 300] {
            k += 1;
            if !r.mine(1_000_000 + k) {
                continue;
            }
            let mut hay: Vec<u8> = Vec::new();
            while hay.len() < hl {
                if nd.is_empty() {
                    hay.push(b'q');
                } else {
                    hay.extend_from_slice(nd);
                    if hay.len() % 3 == 0 {
                        hay.push(b'-');
                    }
                }
            }
            hay.truncate(hl);
            let total = if nd.is_empty() { hl + 1 } else { hl / nd.len().max(1) + 1 };
            for step in 0..(total + 2).min(if lvl == 0 { 4 } else { 60 }) {
                for op in [b'c', b'o'] {
                    let mut ops = vec![b'n'; step];
                    ops.push(op);
                    for rev in [false, true] {
                        for form in 0..2 {
                            r.run(Api::new(Fam::SubIter, Be::Top, 0, rev, form), &hay, nd, [0; 4], &ops, Place::GuardR, Place::GuardL, true);
                        }
                    }
                }
            }
        }
    }
}
