#![allow(clippy::too_many_arguments, clippy::type_complexity)]
#![allow(static_mut_refs)]
#![allow(dead_code)]

extern crate alloc;

mod allocmon;
mod args;
mod case;
mod dispatch;
mod exec;
mod gen;
mod hooks;
mod mem;
mod oracle;
mod p_bytes;
mod p_cfg;
mod p_conc;
mod p_iter;
mod p_misc;
mod p_res;
mod p_sub;
mod prelude;
mod rankers;
mod recipes;
mod report;
mod runner;
mod util;

#[global_allocator]
static GLOBAL: allocmon::Counting = allocmon::Counting;

fn main() {
    report::install_panic_hook();
    report::install_fault_handler();
    let a = args::Args::from_words(std::env::args().skip(1));
    std::process::exit(dispatch::dispatch(&a));
}
