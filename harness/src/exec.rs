//! `exec`: run one `Case` against the real crate and judge it with the
//! reference model. Every call into memchr goes through `Ctx::mon`, which is
//! where the step counter (C13) and the allocation counter (C17) are read.

#[allow(unused_imports)]
use crate::prelude::*;
use crate::case::{Be, Case, Fam};
use crate::oracle;
use crate::rankers::TableRanker;
use memchr::arch::all::packedpair::Pair;
use memchr::memmem;
#[cfg(not(target_arch = "wasm32"))]
use std::panic::{catch_unwind, AssertUnwindSafe};

#[derive(Default, Clone)]
pub struct Ctx {
    pub steps: u64,
    pub allocs: u64,
    /// allocations seen in windows that are documented to allocate
    pub owning_allocs: u64,
    pub count_allocs: bool,
    /// digest of the observable result (for cross-configuration transcripts)
    pub digest: u64,
    /// api-specific extra information (e.g. min_haystack_len, match count)
    pub info: u64,
    /// the case could not be run in this configuration (backend missing,
    /// precondition not met); nothing was judged
    pub skipped: bool,
    /// a documented panic was observed (PPanic)
    pub expected_panics: u64,
    /// panics swallowed in Mismatch calls
    pub ignored_panics: u64,
    pub result_text: String,
    pub want_text: bool,
}

impl Ctx {
    pub fn reset(&mut self) {
        self.steps = 0;
        self.allocs = 0;
        self.owning_allocs = 0;
        self.digest = 0;
        self.info = 0;
        self.skipped = false;
        self.expected_panics = 0;
        self.ignored_panics = 0;
        self.result_text.clear();
    }
    #[inline(always)]
    pub fn mon<T>(&mut self, f: impl FnOnce() -> T) -> T {
        let s0 = crate::hooks::steps();
        if self.count_allocs {
            crate::allocmon::arm();
            let r = f();
            self.allocs += crate::allocmon::disarm();
            self.steps += crate::hooks::steps().wrapping_sub(s0);
            r
        } else {
            let r = f();
            self.steps += crate::hooks::steps().wrapping_sub(s0);
            r
        }
    }
    /// A window that is documented to allocate (into_owned, Shift-Or).
    #[inline(always)]
    pub fn mon_owning<T>(&mut self, f: impl FnOnce() -> T) -> T {
        let s0 = crate::hooks::steps();
        if self.count_allocs {
            crate::allocmon::arm();
            let r = f();
            self.owning_allocs += crate::allocmon::disarm();
            self.steps += crate::hooks::steps().wrapping_sub(s0);
            r
        } else {
            let r = f();
            self.steps += crate::hooks::steps().wrapping_sub(s0);
            r
        }
    }
    fn dig(&mut self, v: Option<usize>) {
        self.digest = crate::util::hash_u64(
            self.digest,
            v.map(|x| x as u64).unwrap_or(u64::MAX),
        );
        if self.want_text {
            self.result_text = format!("{:?}", v);
        }
    }
}

/// Is this backend usable in this build, on this CPU, under the current
/// `force_cpu` setting?
pub fn be_available(be: Be) -> bool {
    match be {
        Be::Top | Be::All => true,
        #[cfg(target_arch = "x86_64")]
        Be::Sse2 => memchr::arch::x86_64::sse2::memchr::One::is_available(),
        #[cfg(target_arch = "x86_64")]
        Be::Avx2 => memchr::arch::x86_64::avx2::memchr::One::is_available(),
        #[cfg(target_arch = "aarch64")]
        Be::Neon => memchr::arch::aarch64::neon::memchr::One::is_available(),
        #[cfg(all(target_arch = "wasm32", target_feature = "simd128"))]
        Be::Simd128 => true,
        #[allow(unreachable_patterns)]
        _ => false,
    }
}

/// Backends with typed One/Two/Three searchers available right now.
pub fn typed_backends() -> Vec<Be> {
    [Be::All, Be::Sse2, Be::Avx2, Be::Neon, Be::Simd128]
        .iter()
        .copied()
        .filter(|b| be_available(*b))
        .collect()
}

/// Vector backends with packed-pair finders available right now.
pub fn vector_backends() -> Vec<Be> {
    [Be::Sse2, Be::Avx2, Be::Neon, Be::Simd128]
        .iter()
        .copied()
        .filter(|b| be_available(*b))
        .collect()
}

macro_rules! byte_searcher {
    ($be:expr, $ty:ident, ($($arg:expr),+), |$s:ident| $body:expr, $unavail:expr) => {
        match $be {
            Be::All => {
                let $s = memchr::arch::all::memchr::$ty::new($($arg),+);
                $body
            }
            #[cfg(target_arch = "x86_64")]
            Be::Sse2 => match memchr::arch::x86_64::sse2::memchr::$ty::new($($arg),+) {
                Some($s) => $body,
                None => $unavail,
            },
            #[cfg(target_arch = "x86_64")]
            Be::Avx2 => match memchr::arch::x86_64::avx2::memchr::$ty::new($($arg),+) {
                Some($s) => $body,
                None => $unavail,
            },
            #[cfg(target_arch = "aarch64")]
            Be::Neon => match memchr::arch::aarch64::neon::memchr::$ty::new($($arg),+) {
                Some($s) => $body,
                None => $unavail,
            },
            #[cfg(all(target_arch = "wasm32", target_feature = "simd128"))]
            Be::Simd128 => match memchr::arch::wasm32::simd128::memchr::$ty::new($($arg),+) {
                Some($s) => $body,
                None => $unavail,
            },
            #[allow(unreachable_patterns)]
            _ => $unavail,
        }
    };
}

/// Build a vector packed-pair finder for `$be` and run `$body` with it.
macro_rules! pp_finder {
    ($be:expr, $ndl:expr, $a0:expr, $a1:expr, |$f:ident| $body:expr, $none:expr, $unavail:expr) => {
        match $be {
            #[cfg(target_arch = "x86_64")]
            Be::Sse2 => {
                use memchr::arch::x86_64::sse2::packedpair::Finder as F;
                if !F::is_available() { $unavail } else {
                let built = if $a0 >= 256 { F::new($ndl) } else {
                    match Pair::with_indices($ndl, $a0 as u8, $a1 as u8) {
                        Some(p) => F::with_pair($ndl, p), None => None } };
                match built { Some($f) => $body, None => $none } }
            }
            #[cfg(target_arch = "x86_64")]
            Be::Avx2 => {
                use memchr::arch::x86_64::avx2::packedpair::Finder as F;
                if !F::is_available() { $unavail } else {
                let built = if $a0 >= 256 { F::new($ndl) } else {
                    match Pair::with_indices($ndl, $a0 as u8, $a1 as u8) {
                        Some(p) => F::with_pair($ndl, p), None => None } };
                match built { Some($f) => $body, None => $none } }
            }
            #[cfg(target_arch = "aarch64")]
            Be::Neon => {
                use memchr::arch::aarch64::neon::packedpair::Finder as F;
                if !F::is_available() { $unavail } else {
                let built = if $a0 >= 256 { F::new($ndl) } else {
                    match Pair::with_indices($ndl, $a0 as u8, $a1 as u8) {
                        Some(p) => F::with_pair($ndl, p), None => None } };
                match built { Some($f) => $body, None => $none } }
            }
            #[cfg(all(target_arch = "wasm32", target_feature = "simd128"))]
            Be::Simd128 => {
                use memchr::arch::wasm32::simd128::packedpair::Finder as F;
                if !F::is_available() { $unavail } else {
                let built = if $a0 >= 256 { F::new($ndl) } else {
                    match Pair::with_indices($ndl, $a0 as u8, $a1 as u8) {
                        Some(p) => F::with_pair($ndl, p), None => None } };
                match built { Some($f) => $body, None => $none } }
            }
            #[allow(unreachable_patterns)]
            _ => $unavail,
        }
    };
}

pub fn exec(c: &Case, ctx: &mut Ctx) -> Result<(), String> {
    match c.api.fam {
        Fam::Byte => exec_byte(c, ctx),
        Fam::Count => exec_count(c, ctx),
        Fam::IterHist => exec_iterhist(c, ctx),
        Fam::Sub => exec_sub(c, ctx),
        Fam::SubIter => exec_subiter(c, ctx),
        Fam::Pre => exec_pre(c, ctx),
        Fam::Block => exec_block(c, ctx),
        Fam::PPanic => exec_ppanic(c, ctx),
        Fam::Mismatch => exec_mismatch(c, ctx),
        Fam::EqFn => exec_eqfn(c, ctx),
        Fam::PairSel => exec_pairsel(c, ctx),
        Fam::History => exec_history(c, ctx),
    }
}

fn skip(ctx: &mut Ctx) -> Result<(), String> {
    ctx.skipped = true;
    Ok(())
}

// ---------------------------------------------------------------------------
// Byte

fn exec_byte(c: &Case, ctx: &mut Ctx) -> Result<(), String> {
    let hay = c.hay;
    let n = c.api.n as usize;
    if !(1..=3).contains(&n) || c.ndl.len() < n {
        return Err("malformed case: needle count".to_string());
    }
    let nd = &c.ndl[..n];
    let rev = c.api.rev;
    let form = c.api.form;
    let exp = if form >= 2 {
        None
    } else if rev {
        oracle::last(hay, nd)
    } else {
        oracle::first(hay, nd)
    };
    let base = hay.as_ptr();
    let (rs, re): (*const u8, *const u8) = match form {
        0 | 1 => (base, base.wrapping_add(hay.len())),
        2 => {
            let o = (c.a[0] as usize).min(hay.len());
            (base.wrapping_add(o), base.wrapping_add(o))
        }
        _ => {
            let s = (c.a[0] as usize).min(hay.len());
            let e = (c.a[1] as usize).min(s);
            (base.wrapping_add(s), base.wrapping_add(e))
        }
    };
    let mut range_err: Option<String> = None;
    let mut conv = |p: Option<*const u8>| -> Option<usize> {
        match p {
            None => None,
            Some(p) => {
                let a = p as usize;
                if a < rs as usize || a >= re as usize {
                    range_err = Some(format!(
                        "raw result {:#x} outside [start {:#x}, end {:#x})",
                        a, rs as usize, re as usize
                    ));
                }
                Some(a.wrapping_sub(base as usize))
            }
        }
    };
    macro_rules! call {
        ($s:ident) => {
            if form == 0 {
                ctx.mon(|| if rev { $s.rfind(hay) } else { $s.find(hay) })
            } else {
                let p = ctx.mon(|| unsafe {
                    if rev {
                        $s.rfind_raw(rs, re)
                    } else {
                        $s.find_raw(rs, re)
                    }
                });
                conv(p)
            }
        };
    }
    let got: Option<usize> = if c.api.be == Be::Top {
        if form != 0 {
            return skip(ctx);
        }
        match (n, rev) {
            (1, false) => ctx.mon(|| memchr::memchr(nd[0], hay)),
            (1, true) => ctx.mon(|| memchr::memrchr(nd[0], hay)),
            (2, false) => ctx.mon(|| memchr::memchr2(nd[0], nd[1], hay)),
            (2, true) => ctx.mon(|| memchr::memrchr2(nd[0], nd[1], hay)),
            (3, false) => {
                ctx.mon(|| memchr::memchr3(nd[0], nd[1], nd[2], hay))
            }
            _ => ctx.mon(|| memchr::memrchr3(nd[0], nd[1], nd[2], hay)),
        }
    } else {
        match n {
            1 => byte_searcher!(c.api.be, One, (nd[0]), |s| call!(s), {
                return skip(ctx);
            }),
            2 => byte_searcher!(c.api.be, Two, (nd[0], nd[1]), |s| call!(s), {
                return skip(ctx);
            }),
            _ => byte_searcher!(
                c.api.be,
                Three,
                (nd[0], nd[1], nd[2]),
                |s| call!(s),
                {
                    return skip(ctx);
                }
            ),
        }
    };
    ctx.dig(got);
    if let Some(e) = range_err {
        return Err(e);
    }
    if let Some(i) = got {
        if i >= hay.len() {
            return Err(format!(
                "returned index {} not below haystack length {}",
                i,
                hay.len()
            ));
        }
    }
    if got != exp {
        return Err(format!("expected {:?}, got {:?}", exp, got));
    }
    Ok(())
}

// ---------------------------------------------------------------------------
// Count

fn exec_count(c: &Case, ctx: &mut Ctx) -> Result<(), String> {
    let hay = c.hay;
    if c.ndl.is_empty() {
        return Err("malformed case: no needle".to_string());
    }
    let nd = &c.ndl[..1];
    let exp = oracle::count(hay, nd);
    let form = c.api.form;
    let got: usize = if c.api.be == Be::Top {
        ctx.mon(|| memchr::memchr_iter(nd[0], hay).count())
    } else {
        byte_searcher!(
            c.api.be,
            One,
            (nd[0]),
            |s| match form {
                0 => ctx.mon(|| s.count(hay)),
                1 => {
                    let r = hay.as_ptr_range();
                    ctx.mon(|| unsafe { s.count_raw(r.start, r.end) })
                }
                _ => ctx.mon(|| s.iter(hay).count()),
            },
            {
                return skip(ctx);
            }
        )
    };
    ctx.dig(Some(got));
    if got != exp {
        return Err(format!("expected count {}, got {}", exp, got));
    }
    Ok(())
}

// ---------------------------------------------------------------------------
// IterHist

fn run_hist<I>(
    mut it: I,
    hay: &[u8],
    nd: &[u8],
    ops: &[u8],
    ctx: &mut Ctx,
) -> Result<(), String>
where
    I: Iterator<Item = usize> + DoubleEndedIterator + Clone,
{
    let mut model = oracle::positions(hay, nd);
    ctx.info = model.len() as u64;
    let check_hint = |it: &I, remaining: usize, k: usize| {
        let (lo, hi) = it.size_hint();
        if lo > remaining || hi.map_or(false, |h| h < remaining) {
            Err(format!(
                "after op #{}: size_hint ({}, {:?}) does not bracket the {} matches still to come",
                k, lo, hi, remaining
            ))
        } else {
            Ok(())
        }
    };
    check_hint(&it, model.len(), 0)?;
    for (k, &op) in ops.iter().enumerate() {
        match op {
            b'n' => {
                let g = ctx.mon(|| it.next());
                let e = model.pop_front();
                ctx.dig(g);
                if g != e {
                    return Err(format!(
                        "op #{} next(): expected {:?}, got {:?}",
                        k, e, g
                    ));
                }
            }
            b'b' => {
                let g = ctx.mon(|| it.next_back());
                let e = model.pop_back();
                ctx.dig(g);
                if g != e {
                    return Err(format!(
                        "op #{} next_back(): expected {:?}, got {:?}",
                        k, e, g
                    ));
                }
            }
            b'k' => {
                let cl = it.clone();
                let g = ctx.mon(move || cl.count());
                ctx.dig(Some(g));
                if g != model.len() {
                    return Err(format!(
                        "op #{} count() on partially consumed iterator: expected {}, got {}",
                        k,
                        model.len(),
                        g
                    ));
                }
            }
            b'c' => {
                it = it.clone();
            }
            _ => return Err("malformed case: unknown iterator op".to_string()),
        }
        check_hint(&it, model.len(), k + 1)?;
    }
    Ok(())
}

fn exec_iterhist(c: &Case, ctx: &mut Ctx) -> Result<(), String> {
    let hay = c.hay;
    let n = c.api.n as usize;
    if !(1..=3).contains(&n) || c.ndl.len() < n {
        return Err("malformed case: needle count".to_string());
    }
    let nd = &c.ndl[..n];
    let ops = c.ops;
    if c.api.be == Be::Top {
        return match n {
            1 => run_hist(memchr::memchr_iter(nd[0], hay), hay, nd, ops, ctx),
            2 => run_hist(
                memchr::memchr2_iter(nd[0], nd[1], hay),
                hay,
                nd,
                ops,
                ctx,
            ),
            _ => run_hist(
                memchr::memchr3_iter(nd[0], nd[1], nd[2], hay),
                hay,
                nd,
                ops,
                ctx,
            ),
        };
    }
    match n {
        1 => byte_searcher!(
            c.api.be,
            One,
            (nd[0]),
            |s| run_hist(s.iter(hay), hay, nd, ops, ctx),
            skip(ctx)
        ),
        2 => byte_searcher!(
            c.api.be,
            Two,
            (nd[0], nd[1]),
            |s| run_hist(s.iter(hay), hay, nd, ops, ctx),
            skip(ctx)
        ),
        _ => byte_searcher!(
            c.api.be,
            Three,
            (nd[0], nd[1], nd[2]),
            |s| run_hist(s.iter(hay), hay, nd, ops, ctx),
            skip(ctx)
        ),
    }
}

// ---------------------------------------------------------------------------
// Sub

fn prefilter_cfg(on: bool) -> memmem::Prefilter {
    if on {
        memmem::Prefilter::Auto
    } else {
        memmem::Prefilter::None
    }
}

fn exec_sub(c: &Case, ctx: &mut Ctx) -> Result<(), String> {
    let (hay, ndl) = (c.hay, c.ndl);
    let rev = c.api.rev;
    let exp = if rev { oracle::rfind(hay, ndl) } else { oracle::find(hay, ndl) };
    let got = match (c.api.form, rev) {
        (0, false) => ctx.mon(|| memmem::find(hay, ndl)),
        (0, true) => ctx.mon(|| memmem::rfind(hay, ndl)),
        (1, false) => ctx.mon(|| memmem::Finder::new(ndl).find(hay)),
        (1, true) => ctx.mon(|| memmem::FinderRev::new(ndl).rfind(hay)),
        (f @ (2 | 3), false) => ctx.mon(|| {
            memmem::FinderBuilder::new()
                .prefilter(prefilter_cfg(f == 3))
                .build_forward(ndl)
                .find(hay)
        }),
        (f @ (2 | 3), true) => ctx.mon(|| {
            memmem::FinderBuilder::new()
                .prefilter(prefilter_cfg(f == 3))
                .build_reverse(ndl)
                .rfind(hay)
        }),
        (4, false) => {
            let r = TableRanker::make(c.a[0], c.a[1], ndl);
            let on = c.a[2] != 0;
            ctx.mon(|| {
                memmem::FinderBuilder::new()
                    .prefilter(prefilter_cfg(on))
                    .build_forward_with_ranker(r, ndl)
                    .find(hay)
            })
        }
        _ => return skip(ctx),
    };
    ctx.dig(got);
    if let Some(i) = got {
        if i.checked_add(ndl.len()).map_or(true, |e| e > hay.len()) {
            return Err(format!(
                "returned offset {} + needle length {} exceeds haystack length {}",
                i,
                ndl.len(),
                hay.len()
            ));
        }
    }
    if got != exp {
        return Err(format!("expected {:?}, got {:?}", exp, got));
    }
    Ok(())
}

// ---------------------------------------------------------------------------
// SubIter

trait SubIt: Iterator<Item = usize> + Clone {
    fn owned(self) -> Self;
}
impl<'h, 'n> SubIt for memmem::FindIter<'h, 'n> {
    fn owned(self) -> Self {
        #[cfg(feature = "alloc")]
        {
            self.into_owned()
        }
        #[cfg(not(feature = "alloc"))]
        {
            self
        }
    }
}
impl<'h, 'n> SubIt for memmem::FindRevIter<'h, 'n> {
    fn owned(self) -> Self {
        #[cfg(feature = "alloc")]
        {
            self.into_owned()
        }
        #[cfg(not(feature = "alloc"))]
        {
            self
        }
    }
}

fn run_subiter<I: SubIt>(
    mut it: I,
    expected: &[usize],
    ops: &[u8],
    ctx: &mut Ctx,
    check_hint: bool,
) -> Result<(), String> {
    let total = expected.len() + 3;
    ctx.info = expected.len() as u64;
    for k in 0..total {
        match ops.get(k).copied().unwrap_or(b'n') {
            b'c' => it = it.clone(),
            b'o' => it = ctx.mon_owning(move || it.owned()),
            _ => {}
        }
        let remaining = expected.len().saturating_sub(k);
        if check_hint {
            let (lo, hi) = it.size_hint();
            if lo > remaining || hi.map_or(false, |h| h < remaining) {
                return Err(format!(
                    "before call #{}: size_hint ({}, {:?}) does not bracket the {} matches still to come",
                    k, lo, hi, remaining
                ));
            }
        }
        let g = ctx.mon(|| it.next());
        let e = expected.get(k).copied();
        ctx.dig(g);
        if g != e {
            return Err(format!(
                "call #{} of next(): expected {:?}, got {:?} (greedy sequence has {} matches)",
                k,
                e,
                g,
                expected.len()
            ));
        }
    }
    Ok(())
}

fn exec_subiter(c: &Case, ctx: &mut Ctx) -> Result<(), String> {
    let (hay, ndl) = (c.hay, c.ndl);
    let rev = c.api.rev;
    let expected = if rev {
        oracle::greedy_rev(hay, ndl)
    } else {
        oracle::greedy_fwd(hay, ndl)
    };
    match (c.api.form, rev) {
        (0, false) => {
            let it = ctx.mon(|| memmem::find_iter(hay, ndl));
            run_subiter(it, &expected, c.ops, ctx, true)
        }
        (0, true) => {
            let it = ctx.mon(|| memmem::rfind_iter(hay, ndl));
            run_subiter(it, &expected, c.ops, ctx, true)
        }
        (1, false) => {
            let f = ctx.mon(|| memmem::Finder::new(ndl));
            let it = ctx.mon(|| f.find_iter(hay));
            run_subiter(it, &expected, c.ops, ctx, true)
        }
        (1, true) => {
            let f = ctx.mon(|| memmem::FinderRev::new(ndl));
            let it = ctx.mon(|| f.rfind_iter(hay));
            run_subiter(it, &expected, c.ops, ctx, true)
        }
        (3, false) => {
            let rk = TableRanker::make(c.a[0], c.a[1], ndl);
            let on = c.a[2] != 0;
            let f = ctx.mon(|| {
                memmem::FinderBuilder::new()
                    .prefilter(prefilter_cfg(on))
                    .build_forward_with_ranker(rk, ndl)
            });
            let it = ctx.mon(|| f.find_iter(hay));
            run_subiter(it, &expected, c.ops, ctx, true)
        }
        #[cfg(feature = "alloc")]
        (2, false) => {
            // the needle buffer is destroyed before the first next()
            let it: memmem::FindIter<'_, 'static> = {
                let mut nbuf = ndl.to_vec();
                let it = {
                    let f = memmem::Finder::new(&nbuf);
                    let it = f.find_iter(hay);
                    ctx.mon_owning(move || it.into_owned())
                };
                for b in nbuf.iter_mut() {
                    *b = !*b;
                }
                drop(nbuf);
                it
            };
            run_subiter(it, &expected, c.ops, ctx, true)
        }
        #[cfg(feature = "alloc")]
        (2, true) => {
            let it: memmem::FindRevIter<'_, 'static> = {
                let mut nbuf = ndl.to_vec();
                let it = {
                    let f = memmem::FinderRev::new(&nbuf);
                    let it = f.rfind_iter(hay);
                    ctx.mon_owning(move || it.into_owned())
                };
                for b in nbuf.iter_mut() {
                    *b = !*b;
                }
                drop(nbuf);
                it
            };
            run_subiter(it, &expected, c.ops, ctx, true)
        }
        _ => skip(ctx),
    }
}

// ---------------------------------------------------------------------------
// Pre

fn judge_prefilter(
    hay: &[u8],
    ndl: &[u8],
    got: Option<usize>,
    i1: usize,
    i2: usize,
) -> Result<(), String> {
    let p = oracle::find(hay, ndl);
    match (got, p) {
        (None, Some(p)) => Err(format!(
            "prefilter returned None but the needle occurs at {}",
            p
        )),
        (Some(cand), Some(p)) if cand > p => Err(format!(
            "prefilter candidate {} is past the first occurrence {}",
            cand, p
        )),
        _ => Ok(()),
    }?;
    if let Some(cand) = got {
        let ok1 = hay.get(cand + i1).map_or(false, |&b| b == ndl[i1]);
        let ok2 = hay.get(cand + i2).map_or(false, |&b| b == ndl[i2]);
        if !ok1 || !ok2 {
            return Err(format!(
                "candidate {} is not genuine: pair bytes at offsets ({}, {}) present = ({}, {})",
                cand, i1, i2, ok1, ok2
            ));
        }
    }
    Ok(())
}

fn exec_pre(c: &Case, ctx: &mut Ctx) -> Result<(), String> {
    let (hay, ndl) = (c.hay, c.ndl);
    let (a0, a1) = (c.a[0], c.a[1]);
    if c.api.be == Be::All {
        use memchr::arch::all::packedpair::Finder as F;
        let built = if a0 >= 256 {
            F::new(ndl)
        } else {
            match Pair::with_indices(ndl, a0 as u8, a1 as u8) {
                Some(p) => F::with_pair(ndl, p),
                None => None,
            }
        };
        let f = match built {
            Some(f) => f,
            None => return skip(ctx),
        };
        let got = ctx.mon(|| f.find_prefilter(hay));
        ctx.dig(got);
        return judge_prefilter(
            hay,
            ndl,
            got,
            f.pair().index1() as usize,
            f.pair().index2() as usize,
        );
    }
    pp_finder!(
        c.api.be,
        ndl,
        a0,
        a1,
        |f| {
            ctx.info = f.min_haystack_len() as u64;
            if hay.len() < f.min_haystack_len() {
                return skip(ctx);
            }
            let got = ctx.mon(|| f.find_prefilter(hay));
            ctx.dig(got);
            judge_prefilter(
                hay,
                ndl,
                got,
                f.pair().index1() as usize,
                f.pair().index2() as usize,
            )
        },
        skip(ctx),
        skip(ctx)
    )
}

// ---------------------------------------------------------------------------
// Block

fn exec_block(c: &Case, ctx: &mut Ctx) -> Result<(), String> {
    use memchr::arch::all::{rabinkarp, twoway};
    let (hay, ndl) = (c.hay, c.ndl);
    let rev = c.api.rev;
    let exp = if rev { oracle::rfind(hay, ndl) } else { oracle::find(hay, ndl) };
    let got: Option<usize> = match (c.api.form, rev) {
        (0, false) => ctx.mon(|| twoway::Finder::new(ndl).find(hay, ndl)),
        (0, true) => ctx.mon(|| twoway::FinderRev::new(ndl).rfind(hay, ndl)),
        (1, false) => ctx.mon(|| rabinkarp::Finder::new(ndl).find(hay, ndl)),
        (1, true) => {
            ctx.mon(|| rabinkarp::FinderRev::new(ndl).rfind(hay, ndl))
        }
        (2, _) => {
            let h = hay.as_ptr_range();
            let n = ndl.as_ptr_range();
            let p = if rev {
                ctx.mon(|| unsafe {
                    rabinkarp::FinderRev::new(ndl)
                        .rfind_raw(h.start, h.end, n.start, n.end)
                })
            } else {
                ctx.mon(|| unsafe {
                    rabinkarp::Finder::new(ndl)
                        .find_raw(h.start, h.end, n.start, n.end)
                })
            };
            match p {
                None => None,
                Some(p) => {
                    let a = p as usize;
                    if a < h.start as usize || a > h.end as usize {
                        return Err(format!(
                            "raw result {:#x} outside the haystack",
                            a
                        ));
                    }
                    Some(a - h.start as usize)
                }
            }
        }
        #[cfg(feature = "alloc")]
        (3, false) => {
            use memchr::arch::all::shiftor;
            let f = ctx.mon_owning(|| shiftor::Finder::new(ndl));
            if f.is_some() != (ndl.len() <= 15) {
                return Err(format!(
                    "shiftor::Finder::new is_some() = {} for a needle of length {}",
                    f.is_some(),
                    ndl.len()
                ));
            }
            match f {
                None => {
                    ctx.dig(None);
                    ctx.info = 1;
                    return Ok(());
                }
                Some(f) => ctx.mon(|| f.find(hay)),
            }
        }
        (4, false) => {
            let (a0, a1) = (c.a[0], c.a[1]);
            pp_finder!(
                c.api.be,
                ndl,
                a0,
                a1,
                |f| {
                    ctx.info = f.min_haystack_len() as u64;
                    if hay.len() < f.min_haystack_len() {
                        return skip(ctx);
                    }
                    ctx.mon(|| f.find(hay, ndl))
                },
                {
                    // constructor said "unsupported"
                    if a0 >= 256 && ndl.len() >= 2 {
                        return Err(format!(
                            "packedpair::Finder::new returned None for a needle of length {}",
                            ndl.len()
                        ));
                    }
                    return skip(ctx);
                },
                {
                    return skip(ctx);
                }
            )
        }
        _ => return skip(ctx),
    };
    ctx.dig(got);
    if let Some(i) = got {
        if i.checked_add(ndl.len()).map_or(true, |e| e > hay.len()) {
            return Err(format!(
                "returned offset {} + needle length {} exceeds haystack length {}",
                i,
                ndl.len(),
                hay.len()
            ));
        }
    }
    if got != exp {
        return Err(format!("expected {:?}, got {:?}", exp, got));
    }
    if c.api.form == 4 && c.a[0] >= 256 && ndl.len() < 2 {
        return Err("packedpair::Finder::new returned Some for a needle shorter than 2".to_string());
    }
    Ok(())
}

// ---------------------------------------------------------------------------
// PPanic: the documented panic, exactly

#[cfg(target_arch = "wasm32")]
fn exec_ppanic(_c: &Case, ctx: &mut Ctx) -> Result<(), String> {
    // no unwinding on wasm32-unknown-unknown: a panic is a trap
    skip(ctx)
}

#[cfg(target_arch = "wasm32")]
fn exec_mismatch(_c: &Case, ctx: &mut Ctx) -> Result<(), String> {
    skip(ctx)
}

#[cfg(not(target_arch = "wasm32"))]
fn exec_ppanic(c: &Case, ctx: &mut Ctx) -> Result<(), String> {
    let (hay, ndl) = (c.hay, c.ndl);
    let form = c.api.form;
    pp_finder!(
        c.api.be,
        ndl,
        c.a[0],
        c.a[1],
        |f| {
            let min = f.min_haystack_len();
            ctx.info = min as u64;
            let should_panic = hay.len() < min;
            let r = catch_unwind(AssertUnwindSafe(|| {
                if form == 0 {
                    f.find(hay, ndl)
                } else {
                    f.find_prefilter(hay)
                }
            }));
            let msg = crate::report::take_panic_msg();
            match r {
                Err(_) => {
                    if !should_panic {
                        return Err(format!(
                            "spurious panic: haystack length {} >= min_haystack_len {}: {}",
                            hay.len(),
                            min,
                            msg
                        ));
                    }
                    if !msg.contains("haystack too small") {
                        return Err(format!(
                            "haystack length {} < min_haystack_len {} panicked, but not with the documented panic: {}",
                            hay.len(), min, msg
                        ));
                    }
                    ctx.expected_panics += 1;
                    ctx.dig(Some(usize::MAX - 1));
                    Ok(())
                }
                Ok(got) => {
                    if should_panic {
                        return Err(format!(
                            "missing panic: haystack length {} < min_haystack_len {} returned {:?}",
                            hay.len(),
                            min,
                            got
                        ));
                    }
                    ctx.dig(got);
                    if form == 0 {
                        let exp = oracle::find(hay, ndl);
                        if got != exp {
                            return Err(format!(
                                "expected {:?}, got {:?}",
                                exp, got
                            ));
                        }
                        Ok(())
                    } else {
                        judge_prefilter(
                            hay,
                            ndl,
                            got,
                            f.pair().index1() as usize,
                            f.pair().index2() as usize,
                        )
                    }
                }
            }
        },
        skip(ctx),
        skip(ctx)
    )
}

// ---------------------------------------------------------------------------
// Mismatch: only faults count; result and panics are ignored

#[cfg(not(target_arch = "wasm32"))]
fn exec_mismatch(c: &Case, ctx: &mut Ctx) -> Result<(), String> {
    use memchr::arch::all::{rabinkarp, twoway};
    let (hay, ndl, other) = (c.hay, c.ndl, c.ops);
    let rev = c.api.rev;
    let form = c.api.form;
    let be = c.api.be;
    let (a0, a1) = (c.a[0], c.a[1]);
    let r = catch_unwind(AssertUnwindSafe(|| -> Option<usize> {
        match (form, rev) {
            (0, false) => twoway::Finder::new(ndl).find(hay, other),
            (0, true) => twoway::FinderRev::new(ndl).rfind(hay, other),
            (1, false) => rabinkarp::Finder::new(ndl).find(hay, other),
            (1, true) => rabinkarp::FinderRev::new(ndl).rfind(hay, other),
            (4, false) => pp_finder!(
                be,
                ndl,
                a0,
                a1,
                |f| f.find(hay, other),
                None,
                None
            ),
            (5, false) => pp_finder!(
                be,
                ndl,
                a0,
                a1,
                |f| f.find_prefilter(hay),
                None,
                None
            ),
            _ => None,
        }
    }));
    if r.is_err() {
        let _ = crate::report::take_panic_msg();
        ctx.ignored_panics += 1;
    }
    Ok(())
}

// ---------------------------------------------------------------------------
// EqFn

fn exec_eqfn(c: &Case, ctx: &mut Ctx) -> Result<(), String> {
    use memchr::arch::all::{is_equal, is_equal_raw, is_prefix, is_suffix};
    // forms 4..=7: both operands are windows of the *same* placed buffer
    // (x = hay[a2..a2+a3], y = hay[a0..a0+a1]): same start with different
    // lengths, empty slices at one-past-the-end, overlapping shifted windows
    let aliased = c.api.form >= 4;
    let (x, y) = if aliased {
        let (yo, yl, xo, xl) =
            (c.a[0] as usize, c.a[1] as usize, c.a[2] as usize, c.a[3] as usize);
        if xo + xl > c.hay.len() || yo + yl > c.hay.len() {
            return Err("malformed case: alias window".to_string());
        }
        (&c.hay[xo..xo + xl], &c.hay[yo..yo + yl])
    } else {
        (c.hay, c.ndl)
    };
    let (got, exp) = match c.api.form & 3 {
        0 => (ctx.mon(|| is_equal(x, y)), x == y),
        1 => (ctx.mon(|| is_prefix(x, y)), x.starts_with(y)),
        2 => (ctx.mon(|| is_suffix(x, y)), x.ends_with(y)),
        _ => {
            let n = x.len().min(y.len());
            (
                ctx.mon(|| unsafe { is_equal_raw(x.as_ptr(), y.as_ptr(), n) }),
                x[..n] == y[..n],
            )
        }
    };
    ctx.dig(Some(got as usize));
    if got != exp {
        return Err(format!("expected {}, got {}", exp, got));
    }
    Ok(())
}

// ---------------------------------------------------------------------------
// PairSel

fn judge_pair(ndl: &[u8], p: Option<Pair>, what: &str) -> Result<(), String> {
    match p {
        None => {
            if ndl.len() >= 2 {
                return Err(format!(
                    "{} returned None for a needle of length {}",
                    what,
                    ndl.len()
                ));
            }
        }
        Some(p) => {
            if ndl.len() < 2 {
                return Err(format!(
                    "{} returned Some for a needle of length {}",
                    what,
                    ndl.len()
                ));
            }
            let (i1, i2) = (p.index1() as usize, p.index2() as usize);
            if i1 == i2 {
                return Err(format!("{}: equal offsets {}", what, i1));
            }
            if i1 >= ndl.len() || i2 >= ndl.len() {
                return Err(format!(
                    "{}: offsets ({}, {}) outside needle of length {}",
                    what,
                    i1,
                    i2,
                    ndl.len()
                ));
            }
            if i1 > 254 || i2 > 254 {
                return Err(format!(
                    "{}: offsets ({}, {}) exceed 254",
                    what, i1, i2
                ));
            }
        }
    }
    Ok(())
}

fn exec_pairsel(c: &Case, ctx: &mut Ctx) -> Result<(), String> {
    let ndl = c.ndl;
    match c.api.form {
        0 => {
            let p = ctx.mon(|| Pair::new(ndl));
            ctx.dig(p.map(|p| (p.index1() as usize) << 8 | p.index2() as usize));
            judge_pair(ndl, p, "Pair::new")
        }
        1 => {
            let r = TableRanker::make(c.a[0], c.a[1], ndl);
            let p = ctx.mon(|| Pair::with_ranker(ndl, &r));
            ctx.dig(p.map(|p| (p.index1() as usize) << 8 | p.index2() as usize));
            judge_pair(ndl, p, "Pair::with_ranker")
        }
        2 => {
            let (a, b) = (c.a[0] as u8, c.a[1] as u8);
            let p = ctx.mon(|| Pair::with_indices(ndl, a, b));
            ctx.dig(p.map(|p| (p.index1() as usize) << 8 | p.index2() as usize));
            let should = a != b
                && (a as usize) < ndl.len()
                && (b as usize) < ndl.len();
            match p {
                None if should => Err(format!(
                    "with_indices({}, {}) rejected a valid pair for needle length {}",
                    a,
                    b,
                    ndl.len()
                )),
                Some(_) if !should => Err(format!(
                    "with_indices({}, {}) accepted an invalid pair for needle length {}",
                    a,
                    b,
                    ndl.len()
                )),
                Some(p) if p.index1() != a || p.index2() != b => Err(format!(
                    "with_indices({}, {}) reports ({}, {})",
                    a,
                    b,
                    p.index1(),
                    p.index2()
                )),
                _ => Ok(()),
            }
        }
        _ => {
            let (a, b) = (c.a[0], c.a[1]);
            let check = |i1: u8, i2: u8| -> Result<(), String> {
                if i1 as u64 != a || i2 as u64 != b {
                    Err(format!(
                        "finder built with pair ({}, {}) reports pair ({}, {})",
                        a, b, i1, i2
                    ))
                } else {
                    Ok(())
                }
            };
            if c.api.be == Be::All {
                use memchr::arch::all::packedpair::Finder as F;
                let p = match Pair::with_indices(ndl, a as u8, b as u8) {
                    Some(p) => p,
                    None => return skip(ctx),
                };
                let f = match ctx.mon(|| F::with_pair(ndl, p)) {
                    Some(f) => f,
                    None => return skip(ctx),
                };
                ctx.dig(Some(
                    (f.pair().index1() as usize) << 8
                        | f.pair().index2() as usize,
                ));
                return check(f.pair().index1(), f.pair().index2());
            }
            pp_finder!(
                c.api.be,
                ndl,
                a,
                b,
                |f| {
                    ctx.info = f.min_haystack_len() as u64;
                    ctx.dig(Some(
                        (f.pair().index1() as usize) << 8
                            | f.pair().index2() as usize,
                    ));
                    check(f.pair().index1(), f.pair().index2())?;
                    Ok(())
                },
                skip(ctx),
                skip(ctx)
            )
        }
    }
}

// ---------------------------------------------------------------------------
// History

pub fn parse_records(ops: &[u8]) -> Vec<(u8, usize)> {
    ops.chunks_exact(5)
        .map(|r| {
            (r[0], u32::from_le_bytes([r[1], r[2], r[3], r[4]]) as usize)
        })
        .collect()
}

pub fn push_record(ops: &mut Vec<u8>, op: u8, len: usize) {
    ops.push(op);
    ops.extend_from_slice(&(len as u32).to_le_bytes());
}

macro_rules! history_impl {
    ($name:ident, $finder:ident, $find:ident, $iter:ident, $oracle:path, $greedy:path) => {
        /// Drive `f` through records[idx..]; on an 'o' record return the
        /// owned finder and the index to resume from.
        fn $name<'n>(
            mut f: memmem::$finder<'n>,
            recs: &[(u8, usize)],
            mut idx: usize,
            hay: &[u8],
            off: &mut usize,
            ndl: &[u8],
            ctx: &mut Ctx,
        ) -> Result<Option<(memmem::$finder<'static>, usize)>, String> {
            while idx < recs.len() {
                let (op, len) = recs[idx];
                match op {
                    b'f' | b'r' | b'i' => {
                        if *off + len > hay.len() {
                            return Err("malformed case: history overruns haystack".to_string());
                        }
                        let h = &hay[*off..*off + len];
                        *off += len;
                        if op == b'i' {
                            let exp = $greedy(h, ndl);
                            let mut got = Vec::new();
                            let mut it = f.$iter(h);
                            for _ in 0..exp.len() + 2 {
                                match ctx.mon(|| it.next()) {
                                    Some(x) => got.push(x),
                                    None => break,
                                }
                            }
                            if got != exp {
                                return Err(format!(
                                    "record #{}: iterator over haystack #{} (len {}) yielded {:?}, expected {:?}",
                                    idx, idx, len, &got[..got.len().min(8)], &exp[..exp.len().min(8)]
                                ));
                            }
                            ctx.dig(Some(got.len()));
                        } else {
                            let got = if op == b'f' {
                                ctx.mon(|| f.$find(h))
                            } else {
                                ctx.mon(|| f.as_ref().$find(h))
                            };
                            let exp = $oracle(h, ndl);
                            ctx.dig(got);
                            if got != exp {
                                return Err(format!(
                                    "record #{} ({}): haystack of length {} at offset {}: expected {:?}, got {:?}",
                                    idx, op as char, len, *off - len, exp, got
                                ));
                            }
                            let fresh = memmem::$finder::new(ndl).$find(h);
                            if fresh != got {
                                return Err(format!(
                                    "record #{}: reused finder returned {:?} but a fresh finder returns {:?}",
                                    idx, got, fresh
                                ));
                            }
                        }
                    }
                    b'c' => {
                        f = f.clone();
                    }
                    b'n' => {
                        if f.needle() != ndl {
                            return Err(format!(
                                "record #{}: needle() no longer equals the construction needle",
                                idx
                            ));
                        }
                    }
                    b'o' => {
                        #[cfg(feature = "alloc")]
                        {
                            let o = ctx.mon_owning(move || f.into_owned());
                            return Ok(Some((o, idx + 1)));
                        }
                    }
                    _ => return Err("malformed case: unknown history op".to_string()),
                }
                idx += 1;
            }
            Ok(None)
        }
    };
}

history_impl!(history_fwd, Finder, find, find_iter, oracle::find, oracle::greedy_fwd);
history_impl!(history_rev, FinderRev, rfind, rfind_iter, oracle::rfind, oracle::greedy_rev);

fn exec_history(c: &Case, ctx: &mut Ctx) -> Result<(), String> {
    let (hay, ndl) = (c.hay, c.ndl);
    let recs = parse_records(c.ops);
    let mut off = 0usize;
    let mut nbuf = ndl.to_vec();
    macro_rules! go {
        ($fun:ident, $finder:ident) => {{
            let first = {
                let f = ctx.mon(|| memmem::$finder::new(&nbuf));
                $fun(f, &recs, 0, hay, &mut off, ndl, ctx)?
            };
            let mut state = first;
            // the original needle buffer is gone from here on
            for b in nbuf.iter_mut() {
                *b = !*b;
            }
            drop(nbuf);
            while let Some((f, idx)) = state {
                state = $fun(f, &recs, idx, hay, &mut off, ndl, ctx)?;
            }
            Ok(())
        }};
    }
    if c.api.rev {
        go!(history_rev, FinderRev)
    } else {
        go!(history_fwd, Finder)
    }
}
