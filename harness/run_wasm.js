// node run_wasm.js <module.wasm> <cmd> key=value ...
// Runs one worker command of the wasm32+simd128 build of the harness under V8.
// Lines written by the module go to stdout unchanged. A trap (RuntimeError:
// memory access out of bounds = a read past the end of linear memory;
// unreachable = a panic) is turned into a `fault` line carrying the case the
// module recorded before the call, and exit code 97.
'use strict';
const fs = require('fs');
const [, , wasmPath, ...words] = process.argv;
const bytes = fs.readFileSync(wasmPath);
let memory = null;
const out = [];
function flush() { if (out.length) { fs.writeSync(1, out.join('')); out.length = 0; } }
const imports = {
  env: {
    host_write(ptr, len) {
      const s = Buffer.from(memory.buffer, ptr, len).toString('utf8');
      out.push(s + '\n');
      if (out.length > 512) flush();
    },
  },
};
const mod = new WebAssembly.Module(bytes);
const inst = new WebAssembly.Instance(mod, imports);
memory = inst.exports.memory;
// file=<path> arguments are replaced by the file's text (no file system inside)
const args = words.map((w) => {
  if (w.startsWith('file=')) {
    return 'file=' + fs.readFileSync(w.slice(5), 'utf8').replace(/\n/g, ' ');
  }
  return w;
});
const text = Buffer.from(args.join('\n'), 'utf8');
const p = inst.exports.vh_alloc(text.length);
new Uint8Array(memory.buffer, p, text.length).set(text);
let rc = 0;
try {
  rc = inst.exports.vh_run(p, text.length);
  flush();
} catch (e) {
  flush();
  let last = '';
  try {
    inst.exports.vh_last_case();
    last = out.join('').trim();
    out.length = 0;
  } catch (e2) {
    last = '{"t":"last","api":"none"}';
  }
  let fields = '';
  try {
    const o = JSON.parse(last.split('\n').pop());
    delete o.t;
    fields = ',' + JSON.stringify(o).slice(1, -1);
  } catch (e3) { /* keep empty */ }
  const msg = String(e && e.message ? e.message : e).replace(/"/g, "'");
  const kind = /out of bounds/.test(msg) ? 'oob' : (/unreachable/.test(msg) ? 'panic' : 'trap');
  fs.writeSync(1, '{"t":"fault","sig":"wasm-' + kind + '","addr":"n/a","region":"' +
    (kind === 'oob' ? 'past-end-of-linear-memory' : 'trap') + '","trap":"' + msg + '"' + fields + '}\n');
  process.exit(97);
}
process.exit(rc);
